(** source tie for C18: the object identifiers and the salt length of util/x509util.go *)
From Coq Require Import List NArith.
From PatVerif Require Import Base.Bytes Base.Der Model.TokenKey Gen.Src.
Import ListNotations. Open Scope N_scope.
Ltac t := vm_compute; first [reflexivity | exact I | repeat split; reflexivity].
(** DER content octets of an OBJECT IDENTIFIER: 40*a1 + a2, then base-128 with continuation bits (arcs below 2^28 here) *)
Definition b128 (v : N) : list N :=
  (if 2097152 <=? v then [128 + (v / 2097152) mod 128] else []) ++
  (if 16384 <=? v then [128 + (v / 16384) mod 128] else []) ++
  (if 128 <=? v then [128 + (v / 128) mod 128] else []) ++ [v mod 128].
Definition oid_content (arcs : list N) : list byte :=
  match arcs with a1 :: a2 :: rest => map n2b ((40 * a1 + a2) :: flat_map b128 rest) | _ => [] end.
Example tie_oid_pss : tie s_oid_pss (fun a => tlv x06 (oid_content a) = oid_rsassa_pss). Proof. t. Qed.
Example tie_oid_sha384 : tie s_oid_sha384 (fun a => tlv x06 (oid_content a) = oid_sha384). Proof. t. Qed.
Example tie_oid_mgf1 : tie s_oid_mgf1 (fun a => tlv x06 (oid_content a) = oid_mgf1). Proof. t. Qed.
Example tie_salt : tie s_pss_salt (fun sl => alg_pss = der_seq (oid_rsassa_pss ++ der_seq (tlv xa0 (der_seq oid_sha384) ++ tlv xa1 (der_seq (oid_mgf1 ++ der_seq oid_sha384)) ++ tlv xa2 (der_int sl)))).
Proof. t. Qed.
