#!/usr/bin/env python3
"""Prints the SHA-2 round constants and initial values (FIPS 180-4) computed from first principles
(fractional parts of cube / square roots of primes), for pasting into coq/Base/Hash.v."""
from math import isqrt
def primes(n):
    ps, c = [], 2
    while len(ps) < n:
        if all(c % p for p in ps): ps.append(c)
        c += 1
    return ps
def icbrt(n):
    lo, hi = 0, 1 << ((n.bit_length() + 2) // 3 + 1)
    while lo < hi:
        m = (lo + hi + 1) // 2
        if m ** 3 <= n: lo = m
        else: hi = m - 1
    return lo
def frac_cbrt(p, bits): return icbrt(p << (3 * bits)) & ((1 << bits) - 1)
def frac_sqrt(p, bits): return isqrt(p << (2 * bits)) & ((1 << bits) - 1)
P = primes(80)
def lst(name, xs): print("Definition %s : list N := [%s]." % (name, "; ".join(str(x) for x in xs)))
lst("k256", [frac_cbrt(p, 32) for p in P[:64]])
lst("iv256", [frac_sqrt(p, 32) for p in P[:8]])
lst("k512", [frac_cbrt(p, 64) for p in P[:80]])
lst("iv512", [frac_sqrt(p, 64) for p in P[:8]])
lst("iv384", [frac_sqrt(p, 64) for p in P[8:16]])
