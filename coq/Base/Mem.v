(** Mem.v — Layer D: Go byte slices over a heap of backing arrays, with Go's [append] rule (write in place when
    len + n <= cap, otherwise allocate a new array and copy), [make], sub-slicing and [copy].
    A slice is (backing array, offset, length, capacity); capacity is counted from the offset. *)
From PatVerif Require Export Base.Bytes.
From Coq Require Import ZifyNat ZifyBool.

Definition heap := list (list byte).
Record slice := { rg : nat; off : nat; len : nat; cap : nat }.

Definition region (h : heap) (r : nat) : list byte := nth r h [].
Definition wf_slice (h : heap) (s : slice) : Prop :=
  rg s < length h /\ len s <= cap s /\ off s + cap s <= length (region h (rg s)).

(** the bytes a holder of [s] sees within its length, and within its whole capacity *)
Definition view (h : heap) (s : slice) : list byte := firstn (len s) (skipn (off s) (region h (rg s))).
Definition view_cap (h : heap) (s : slice) : list byte := firstn (cap s) (skipn (off s) (region h (rg s))).

Fixpoint set_region (h : heap) (r : nat) (v : list byte) : heap :=
  match h, r with
  | [], _ => []
  | _ :: t, O => v :: t
  | x :: t, S r' => x :: set_region t r' v
  end.
Definition write_at (h : heap) (r pos : nat) (xs : list byte) : heap :=
  let old := region h r in
  set_region h r (firstn pos old ++ xs ++ skipn (pos + length xs) old).

(** append(s, xs...) *)
Definition go_append (h : heap) (s : slice) (xs : list byte) : heap * slice :=
  if Nat.leb (len s + length xs) (cap s)
  then (write_at h (rg s) (off s + len s) xs,
        {| rg := rg s; off := off s; len := len s + length xs; cap := cap s |})
  else (h ++ [view h s ++ xs],                       (* a new backing array (its exact capacity is the runtime's choice) *)
        {| rg := length h; off := 0; len := len s + length xs; cap := len s + length xs |}).
(** make([]byte, n, c) *)
Definition go_make (h : heap) (n c : nat) : heap * slice :=
  (h ++ [repeat x00 c], {| rg := length h; off := 0; len := n; cap := c |}).

(** ** the two ways of building  a || 0x00 || b  that the code base has used *)
(** (1) append onto the argument:  t := append(a, 0x00); t = append(t, b...)   [ed25519 before e5526a5] *)
Definition build_on_arg (h : heap) (a b : slice) : heap * slice :=
  let '(h1, t) := go_append h a [x00] in go_append h1 t (view h1 b).
(** (2) fresh storage:  t := make([]byte, 0, len(a)+1+len(b)); t = append(t, a...); t = append(t, 0x00); t = append(t, b...) *)
Definition build_fresh (h : heap) (a b : slice) : heap * slice :=
  let '(h0, t0) := go_make h 0 (len a + 1 + len b) in
  let '(h1, t1) := go_append h0 t0 (view h0 a) in
  let '(h2, t2) := go_append h1 t1 [x00] in
  go_append h2 t2 (view h2 b).
