(** source tie for C19: MaxVarint and the class thresholds of AppendVarint / SizeVarint *)
From Coq Require Import List NArith.
From PatVerif Require Import Model.Quicwire Gen.Src.
Import ListNotations. Open Scope N_scope.
Example tie_max : s_max_varint = max_varint. Proof. reflexivity. Qed.
Example tie_thresholds : s_varint_thresholds = [63; 16383; 1073741823; max_varint]. Proof. reflexivity. Qed.
Example tie_size_thresholds : s_varint_size_thresholds = s_varint_thresholds. Proof. reflexivity. Qed.
