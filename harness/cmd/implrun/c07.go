package main

import (
	stdecdsa "crypto/ecdsa"
	"crypto/elliptic"
	crand "crypto/rand"
	"crypto/sha256"
	"crypto/sha512"
	"fmt"
	"math/big"
	"sort"

	hpke "github.com/cisco/go-hpke"
	"github.com/cloudflare/pat-go/tokens/type3"
	"verif/harness/internal/h"
	"verif/harness/internal/ref"
)

func init() { props["C07"] = runC07 }

type c07Issuer struct {
	env     *t3env
	suite   hpke.CipherSuite
	sk      hpke.KEMPrivateKey
	cfg     []byte // key id, kem, kdf, aead
	keyID   []byte // SHA-256 of the EncapKey encoding, rebuilt here from go-hpke's serialisation
	origins [][]byte
	modulus *big.Int
}

func newC07Issuer(c *h.Ctx, rsaIdx int, origins []string) *c07Issuer {
	seed := rnd(c, 32)
	om := map[string][]byte{}
	var ob [][]byte
	for _, o := range origins {
		om[o] = rnd(c, 48)
		ob = append(ob, []byte(o))
	}
	env := newT3(c, rsaIdx, seed, om)
	suite, _ := hpke.AssembleCipherSuite(hpke.DHKEM_X25519, hpke.KDF_HKDF_SHA256, hpke.AEAD_AESGCM128)
	sk, pk, _ := suite.KEM.DeriveKeyPair(seed)
	cfg := []byte{0x01, 0x00, 0x20, 0x00, 0x01, 0x00, 0x01}
	encap := cat([]byte{0x01, 0x00, 0x20}, suite.KEM.SerializePublicKey(pk), []byte{0x00, 0x01, 0x00, 0x01})
	kid := sha256.Sum256(encap)
	return &c07Issuer{env: env, suite: suite, sk: sk, cfg: cfg, keyID: kid[:], origins: ob, modulus: env.key.N}
}

// evalCase runs issuer.Evaluate and the model with independently computed primitive answers.
func (is *c07Issuer) evalCase(c *h.Ctx, cat_ string, data []byte) (served bool) {
	var err error
	var resp []byte
	pan, msg := h.Protect(func() { resp, _, err = is.env.issuer.Evaluate(data) })
	st := h.StOK
	if pan {
		st = h.StPanic
	} else if err != nil {
		st = h.StNone
	}
	// oracle: decode by hand (layout of the draft), open with go-hpke, verify with crypto/ecdsa
	var key, nkid, enc, sig []byte
	framed := false
	if len(data) >= 2+49+32+2 && data[0] == 0 && data[1] == 3 {
		key, nkid = data[2:51], data[51:83]
		n := int(data[83])<<8 | int(data[84])
		if n > 0 && len(data) == 85+n+96 {
			enc, sig = data[85:85+n], data[85+n:]
			framed = true
		}
	}
	oOpen, oParse, oSig, oSign := false, false, false, false
	var pt, aad, sm []byte
	if len(data) >= 51 {
		aad = cat(is.cfg, []byte{0, 3}, data[2:51], is.keyID)
	} else {
		aad = cat(is.cfg, []byte{0, 3}, is.keyID)
	}
	sm = cat([]byte{0, 3})
	originKnown, nameRecovered := false, []byte(nil)
	if framed {
		sm = signedMessage(key, nkid, enc)
		if len(enc) >= 32 {
			h.Protect(func() {
				ctx, e := hpke.SetupBaseR(is.suite, is.sk, enc[:32], []byte("TokenRequest"))
				if e == nil {
					if p, e2 := ctx.Open(aad, enc[32:]); e2 == nil {
						oOpen, pt = true, p
					}
				}
			})
		}
		oParse = ref.ParsesP384(key)
		oSig = oParse && oracleSig(key, sm, sig)
		if oOpen && len(pt) >= 259 {
			n := int(pt[257])<<8 | int(pt[258])
			if len(pt) >= 259+n {
				// blind signing is attempted on the decoded 256-byte message only; when the inner request does not
				// decode the code carries on with the zero request, whose empty message circl's BlindSign refuses
				oSign = new(big.Int).SetBytes(pt[1:257]).Cmp(is.modulus) <= 0
				name := pt[259 : 259+n]
				for len(name) > 0 && name[len(name)-1] == 0 {
					name = name[:len(name)-1]
				}
				nameRecovered = name
				for _, o := range is.origins {
					if string(o) == string(name) {
						originKnown = true
					}
				}
			}
		}
	}
	args := [][]byte{data, is.cfg, is.keyID, flagB(oOpen), pt, flagB(oParse), flagB(oSig), flagB(oSign)}
	args = append(args, is.origins...)
	if len(data) < 51 {
		aad = nil // the model reports the AAD only for a decoded key
	}
	outs := [][]byte{st}
	if framed {
		outs = append(outs, aad, sm)
		c.Case(cat_, true, "eval3", args, outs)
	} else {
		c.Case(cat_, len(data) > 0, "fe_eval3", [][]byte{st, data}, [][]byte{h.StOK})
	}
	det := map[string]any{"category": cat_, "request": h.Hex(data[:minInt(len(data), 700)]), "recovered_origin": string(nameRecovered), "panic": msg}
	if pan {
		c.Violation("issuer Evaluate panics", det)
		return false
	}
	authentic := framed && oOpen && originKnown && oSig
	if err == nil && !authentic {
		det["framed"], det["opens"], det["origin_registered"], det["signature_valid"] = framed, oOpen, originKnown, oSig
		c.Violation("issuer returns a response for a request that is not authentic (parse / decrypt with AAD / registered origin / signature)", det)
	}
	if err != nil && authentic && oSign {
		c.Violation("issuer rejects an authentic request", det)
	}
	if err != nil && resp != nil {
		c.Violation("an error is returned together with a response", det)
	}
	return err == nil
}

func runC07(c *h.Ctx) {
	long40 := "a-registered-origin-name-of-forty-bytes." // 40 bytes: its first 32 bytes are one full padding block
	long70 := "another-registered-origin-name-that-is-exactly-seventy-bytes-long.test"
	origins := []string{"origin.example", "b.example", "x", "dotted.example.", "Mixed.Example", " spaced.example", long40, long70}
	is := newC07Issuer(c, 0, origins)
	other := newC07Issuer(c, 1, origins) // another issuer: other name key (and token key)
	client := type3.NewRateLimitedClientFromSecret(rnd(c, 48))
	nHonest := 1
	if c.Thorough() {
		nHonest = 3
	}
	for hi := 0; hi < nHonest; hi++ {
		st, err := is.env.request(client, rnd(c, 20), rnd(c, 32), rnd(c, 48), origins[hi%len(origins)])
		if err != nil {
			c.Violation("honest request creation failed", map[string]any{"err": err.Error()})
			return
		}
		wire := st.Request().Marshal()
		if !is.evalCase(c, "honest", wire) {
			c.Violation("an honest request for a registered origin is refused", map[string]any{"origin": origins[hi%len(origins)]})
		}
		// every single-bit change
		for i := 0; i < 8*len(wire); i++ {
			if is.evalCase(c, "bitflip:every-position", flipBit(wire, i)) {
				c.Violation("a single-bit change to an accepted request is accepted", map[string]any{"bit": i})
			}
		}
		for l := 0; l < len(wire); l += 1 + len(wire)/80 {
			is.evalCase(c, "truncated", wire[:l])
		}
		is.evalCase(c, "truncated:no-signature", wire[:len(wire)-96])
		is.evalCase(c, "truncated:last-byte", wire[:len(wire)-1])
		is.evalCase(c, "extended", cat(wire, []byte{0}))
		is.evalCase(c, "extended", cat(wire, rnd(c, 96)))
		// the same request sent to another issuer (other name key)
		if other.evalCase(c, "foreign:encrypted-to-another-issuers-name-key", wire) {
			c.Violation("a request encrypted to another issuer's name key is served", nil)
		}
		// signed by a different key (same request key field)
		r := st.Request()
		otherKey, _ := stdecdsa.GenerateKey(elliptic.P384(), crand.Reader)
		sm := signedMessage(r.RequestKey, r.NameKeyID, r.EncryptedTokenRequest)
		d := sha512.Sum384(sm)
		rr, ss, _ := stdecdsa.Sign(crand.Reader, otherKey, d[:])
		sig := make([]byte, 96)
		rr.FillBytes(sig[:48])
		ss.FillBytes(sig[48:])
		forged := cat([]byte{0, 3}, r.RequestKey, r.NameKeyID, u16pfx(r.EncryptedTokenRequest), sig)
		if is.evalCase(c, "foreign:signed-by-a-different-key", forged) {
			c.Violation("a request signed by a different key is served", nil)
		}
		// request key replaced by the attacker's own key and consistently re-signed: must fail at the AAD
		okEnc := elliptic.MarshalCompressed(elliptic.P384(), otherKey.X, otherKey.Y)
		sm2 := signedMessage(okEnc, r.NameKeyID, r.EncryptedTokenRequest)
		d2 := sha512.Sum384(sm2)
		rr, ss, _ = stdecdsa.Sign(crand.Reader, otherKey, d2[:])
		rr.FillBytes(sig[:48])
		ss.FillBytes(sig[48:])
		if is.evalCase(c, "foreign:request-key-replaced-and-re-signed", cat([]byte{0, 3}, okEnc, r.NameKeyID, u16pfx(r.EncryptedTokenRequest), sig)) {
			c.Violation("a request whose request key was replaced (and re-signed) still decrypts: the request key is not bound as associated data", nil)
		}
		// malleated signature (r, N - s): a different encoding of an equally valid ECDSA signature is NOT a forgery
		// and is outside the single-bit clause; compared model<->implementation only
		N := elliptic.P384().Params().N
		sInt := new(big.Int).Sub(N, new(big.Int).SetBytes(r.Signature[48:]))
		mal := append([]byte{}, wire...)
		sInt.FillBytes(mal[len(mal)-48:])
		is.evalCase(c, "signature:negated-s", mal)
	}
	// issuers as the PUBLIC constructor makes them (the other legs install a seed-derived name key through a hook): every
	// issuer has its own name key and its own origin registry; a request made for one is refused by every other
	{
		var pub []*type3.RateLimitedIssuer
		for i := 0; i < 3; i++ {
			is := type3.NewRateLimitedIssuer(rsaKey(0)) // the SAME token key: only name key and registry differ
			if is == nil {
				c.Violation("NewRateLimitedIssuer returns nil", nil)
				continue
			}
			pub = append(pub, is)
		}
		for i, a := range pub {
			a.AddOrigin(fmt.Sprintf("only-at-%d.example", i))
			a.AddOrigin("everywhere.example")
		}
		seen := map[string]int{}
		for i, a := range pub {
			nk := string(a.NameKey().Marshal())
			if j, dup := seen[nk]; dup {
				c.Violation("two independently constructed issuers have the same name key", map[string]any{"issuers": []int{j, i}})
			}
			seen[nk] = i
		}
		for i, a := range pub {
			for _, origin := range []string{"everywhere.example", fmt.Sprintf("only-at-%d.example", i)} {
				st, err := client.CreateTokenRequest(rnd(c, 20), rnd(c, 32), rnd(c, 48), a.TokenKeyID(), a.TokenKey(), origin, a.NameKey())
				if err != nil {
					c.Violation("honest request creation failed", map[string]any{"err": err.Error()})
					continue
				}
				wire := st.Request().Marshal()
				for j, b := range pub {
					var err error
					pan, msg := h.Protect(func() { _, _, err = b.Evaluate(wire) })
					c.Count("constructed-issuers:request-for-i-sent-to-j", 1, fmt.Sprint(i, j, origin))
					served := !pan && err == nil
					if pan {
						c.Violation("Evaluate panics", map[string]any{"panic": msg})
					} else if served != (i == j) {
						c.Violation("a request is served exactly by the issuer whose name key it was encrypted to and who registered its origin", map[string]any{"made_for": i, "sent_to": j, "origin": origin, "served": served})
					}
				}
			}
			// an origin only ANOTHER issuer registered, requested from this one
			other := fmt.Sprintf("only-at-%d.example", (i+1)%len(pub))
			if st, err := client.CreateTokenRequest(rnd(c, 20), rnd(c, 32), rnd(c, 48), a.TokenKeyID(), a.TokenKey(), other, a.NameKey()); err == nil {
				if _, _, err := a.Evaluate(st.Request().Marshal()); err == nil {
					c.Violation("an issuer serves an origin that only another issuer registered", map[string]any{"issuer": i, "origin": other})
				}
			}
		}
	}
	// registered / unregistered origins, near misses
	names := []string{"dotted.example.", "dotted.example", "dotted.example..", "Mixed.Example", "mixed.example", "MIXED.EXAMPLE", " spaced.example", "spaced.example",
		"origin.example", "b.example", "x", "", "origin.exampl", "origin.example0", "origin.examplf", "\x00origin.example", "\x00\x00x", "origin.example\x00x", "Origin.example", "x\x00", "origin.example.", "y",
		string(make([]byte, 31)), "xx", long40, long40[:32], long40[:39], long40 + "x", long70, long70[:64], long70[:32], long70[:69]}
	for _, n := range names {
		st, err := is.env.request(client, rnd(c, 20), rnd(c, 32), rnd(c, 48), n)
		if err != nil {
			continue
		}
		served := is.evalCase(c, "origin:registered-and-near-miss", st.Request().Marshal())
		want := false
		for _, o := range origins {
			if o == n {
				want = true
			}
		}
		// names ending in a zero byte are outside C20's quantifier: "x\x00" is recovered as "x"
		if len(n) > 0 && n[len(n)-1] == 0 {
			continue
		}
		if served != want {
			c.Violation("a request is served exactly for registered origins", map[string]any{"origin": h.Hex([]byte(n)), "served": served})
		}
	}
	// a correct envelope (opens under the name key, associated data and signature consistent) around a request-key field
	// that is not a P-384 point, or is a point other than the signer's: refused at the key / signature check
	{
		good := cat([]byte{is.env.tokenKeyID[31]}, cat([]byte{0}, rnd(c, 255)), u16pfx(append([]byte("origin.example"), make([]byte, 18)...)))
		otherKey, _ := stdecdsa.GenerateKey(elliptic.P384(), crand.Reader)
		for _, k := range [][]byte{cat([]byte{2}, bytesFF(48)), cat([]byte{3}, make([]byte, 48)), make([]byte, 49), cat([]byte{4}, rnd(c, 48)), cat([]byte{2}, elliptic.P384().Params().P.Bytes()),
			elliptic.MarshalCompressed(elliptic.P384(), otherKey.X, otherKey.Y)} {
			if wire, err := craftType3Key(c, is, client, good, k); err == nil {
				if is.evalCase(c, "request-key:not-a-point-or-not-the-signer", wire) {
					c.Violation("a request whose request key is not a curve point / not the signing key is served", map[string]any{"request_key": h.Hex(k)})
				}
			}
		}
		// a request accepted under key P, then the MIRRORED key -P (same x, other sign byte) in the request-key field,
		// bound as associated data, but signed by the secret of P: signed by a different key than the one it names
		{
			signer, _ := stdecdsa.GenerateKey(elliptic.P384(), crand.Reader)
			pEnc := elliptic.MarshalCompressed(elliptic.P384(), signer.X, signer.Y)
			if wire, err := craftType3Signed(c, is, client, good, nil, signer); err == nil {
				if !is.evalCase(c, "request-key:mirrored:honest-first", wire) {
					c.Violation("the crafted control request (valid in every respect) is refused: harness bug or issuer defect", nil)
				}
			}
			neg := append([]byte{pEnc[0] ^ 1}, pEnc[1:]...)
			for rep := 0; rep < 2; rep++ {
				if wire, err := craftType3Signed(c, is, client, good, neg, signer); err == nil {
					if is.evalCase(c, "request-key:mirrored:negated-key-signed-by-the-original", wire) {
						c.Violation("a request naming the mirrored key -P but signed by the key of P is served", map[string]any{"request_key": h.Hex(neg)})
					}
					if other.evalCase(c, "request-key:mirrored:negated-key-at-another-issuer", wire) {
						c.Violation("a request for another issuer naming the mirrored key is served", nil)
					}
				}
			}
		}
		// an envelope that is consistent in every respect EXCEPT the associated data it was sealed under: every part of
		// the prescribed associated data (name key configuration, token type, request key, name key id) is bound — a
		// request sealed under any reduced or reordered version of it does not open, whoever signed it
		{
			type aadFn func(cfg, typ, key, kid []byte) []byte
			variants := map[string]aadFn{
				"without-request-key":   func(cfg, typ, key, kid []byte) []byte { return cat(cfg, typ, kid) },
				"without-name-key-id":   func(cfg, typ, key, kid []byte) []byte { return cat(cfg, typ, key) },
				"without-token-type":    func(cfg, typ, key, kid []byte) []byte { return cat(cfg, key, kid) },
				"without-configuration": func(cfg, typ, key, kid []byte) []byte { return cat(typ, key, kid) },
				"empty":                 func(cfg, typ, key, kid []byte) []byte { return nil },
				"request-key-only":      func(cfg, typ, key, kid []byte) []byte { return key },
				"key-id-before-key":     func(cfg, typ, key, kid []byte) []byte { return cat(cfg, typ, kid, key) },
				"another-request-key": func(cfg, typ, key, kid []byte) []byte {
					return cat(cfg, typ, elliptic.MarshalCompressed(elliptic.P384(), otherKey.X, otherKey.Y), kid)
				},
				"request-key-x-only": func(cfg, typ, key, kid []byte) []byte { return cat(cfg, typ, key[1:], kid) },
				"another-token-type": func(cfg, typ, key, kid []byte) []byte { return cat(cfg, []byte{0, 2}, key, kid) },
			}
			var vnames []string
			for name := range variants {
				vnames = append(vnames, name)
			}
			sort.Strings(vnames)
			for _, name := range vnames {
				f := variants[name]
				if wire, err := craftType3AAD(c, is, good, func(key []byte) []byte { return f(is.cfg, []byte{0, 3}, key, is.keyID) }); err == nil {
					if is.evalCase(c, "associated-data:"+name, wire) {
						c.Violation("a request sealed under other associated data than configuration || type || request key || name key id is served", map[string]any{"associated_data": name})
					}
				}
			}
		}
		if wire, err := craftType3(c, is, client, good); err == nil {
			if !is.evalCase(c, "request-key:crafted-control", wire) {
				c.Violation("the crafted control request (valid in every respect) is refused: harness bug or issuer defect", nil)
			}
		}
	}
	// inner request that fails to parse (short plaintext) under a correct envelope; also against an issuer
	// that registered the empty origin name (the code looks up "" after a failed inner decode)
	isEmpty := newC07Issuer(c, 0, []string{"", "x"})
	for _, ptLen := range []int{0, 1, 256, 257, 258, 259, 260, 300} {
		for _, who := range []*c07Issuer{is, isEmpty} {
			encReq, err := craftType3(c, who, client, rnd(c, ptLen))
			if err == nil {
				who.evalCase(c, "inner:malformed-plaintext", encReq)
			}
			// a padded-origin field of length ZERO (no block at all) under a correct envelope
			pt0 := cat([]byte{who.env.tokenKeyID[31]}, cat([]byte{0}, rnd(c, 255)), u16pfx(nil))
			if encReq, err := craftType3(c, who, client, pt0); err == nil {
				if who.evalCase(c, "inner:zero-length-padded-origin", encReq) && who == is {
					c.Violation("a request whose padded origin field is empty is served by an issuer that did not register the empty origin", nil)
				}
			}
			pt := cat([]byte{9}, rnd(c, 256), u16pfx(make([]byte, 32)))
			if ptLen == 300 {
				pt[1] = 0 // blinded message below the modulus: the empty origin, well-formed
			}
			if encReq, err = craftType3(c, who, client, pt); err == nil {
				who.evalCase(c, "inner:empty-origin-well-formed", encReq)
			}
		}
	}
}

// craftType3 builds a correctly signed and encrypted request whose plaintext is arbitrary bytes.
func craftType3(c *h.Ctx, is *c07Issuer, cl type3.RateLimitedClient, plaintext []byte) ([]byte, error) {
	return craftType3Key(c, is, cl, plaintext, nil)
}

// craftType3Key: as craftType3, with the request-key FIELD replaced by keyEnc (bound as associated data and covered by
// the signature of a fresh key: the envelope opens, the field itself need not be a point).
func craftType3Key(c *h.Ctx, is *c07Issuer, cl type3.RateLimitedClient, plaintext []byte, keyOverride []byte) ([]byte, error) {
	return craftType3Signed(c, is, cl, plaintext, keyOverride, nil)
}

// craftType3Signed: as craftType3Key, signed with the given private key (a fresh one when nil).
func craftType3Signed(c *h.Ctx, is *c07Issuer, _ type3.RateLimitedClient, plaintext []byte, keyOverride []byte, signer *stdecdsa.PrivateKey) ([]byte, error) {
	key := signer
	if key == nil {
		key, _ = stdecdsa.GenerateKey(elliptic.P384(), crand.Reader)
	}
	keyEnc := elliptic.MarshalCompressed(elliptic.P384(), key.X, key.Y)
	if keyOverride != nil {
		keyEnc = keyOverride
	}
	pkBytes := is.suite.KEM.SerializePublicKey(mustPub(is))
	pk, _ := is.suite.KEM.DeserializePublicKey(pkBytes)
	enc, ctx, err := hpke.SetupBaseS(is.suite, crand.Reader, pk, []byte("TokenRequest"))
	if err != nil {
		return nil, err
	}
	aad := cat(is.cfg, []byte{0, 3}, keyEnc, is.keyID)
	ct := ctx.Seal(aad, plaintext)
	ect := cat(enc, ct)
	sm := signedMessage(keyEnc, is.keyID, ect)
	d := sha512.Sum384(sm)
	rr, ss, _ := stdecdsa.Sign(crand.Reader, key, d[:])
	sig := make([]byte, 96)
	rr.FillBytes(sig[:48])
	ss.FillBytes(sig[48:])
	return cat([]byte{0, 3}, keyEnc, is.keyID, u16pfx(ect), sig), nil
}

// craftType3AAD: as craftType3, sealed under the associated data aadOf(request key) instead of the prescribed one.
func craftType3AAD(c *h.Ctx, is *c07Issuer, plaintext []byte, aadOf func(keyEnc []byte) []byte) ([]byte, error) {
	key, _ := stdecdsa.GenerateKey(elliptic.P384(), crand.Reader)
	keyEnc := elliptic.MarshalCompressed(elliptic.P384(), key.X, key.Y)
	pkBytes := is.suite.KEM.SerializePublicKey(mustPub(is))
	pk, _ := is.suite.KEM.DeserializePublicKey(pkBytes)
	enc, ctx, err := hpke.SetupBaseS(is.suite, crand.Reader, pk, []byte("TokenRequest"))
	if err != nil {
		return nil, err
	}
	ct := ctx.Seal(aadOf(keyEnc), plaintext)
	ect := cat(enc, ct)
	d := sha512.Sum384(signedMessage(keyEnc, is.keyID, ect))
	rr, ss, _ := stdecdsa.Sign(crand.Reader, key, d[:])
	sig := make([]byte, 96)
	rr.FillBytes(sig[:48])
	ss.FillBytes(sig[48:])
	return cat([]byte{0, 3}, keyEnc, is.keyID, u16pfx(ect), sig), nil
}

func mustPub(is *c07Issuer) hpke.KEMPublicKey {
	_, _, _, _, pk := is.env.nameKey.VerifFields()
	p, _ := is.suite.KEM.DeserializePublicKey(pk)
	return p
}
