From PatVerif Require Import Model.Ecdsa Proofs.DerP.
From Coq Require Import ZifyN ZifyNat ZifyBool.
Open Scope N_scope.

Lemma strip0_keep1_dec b : be_dec (strip0_keep1 b) = be_dec b.
Proof.
  induction b as [|x t IH]; [reflexivity|]. cbn [strip0_keep1]. destruct t as [|y t']; [reflexivity|].
  destruct (byte_eqb x x00) eqn:E; [|reflexivity]. apply byte_eqb_eq in E. subst x.
  rewrite IH. cbn [be_dec]. change (b2n x00) with 0. lia.
Qed.

Definition top_set (c : list byte) : bool := match c with h :: _ => 128 <=? b2n h | [] => false end.

Lemma signed_val_cases c : c <> [] ->
  (top_set c = true -> (signed_val c < 0)%Z) /\ (top_set c = false -> signed_val c = Z.of_N (be_dec c)).
Proof.
  intro Hne. destruct c as [|h t]; [congruence|]. cbn [top_set signed_val]. split; intro E; rewrite E.
  - rewrite be_dec_h_eq. pose proof (be_dec_lt (h :: t)) as L.
    assert (P : Z.of_N (256 ^ N.of_nat (length (h :: t))) = (2 ^ (8 * Z.of_nat (length (h :: t))))%Z).
    { rewrite N2Z.inj_pow. change (Z.of_N 256) with (2 ^ 8)%Z. rewrite <- Z.pow_mul_r by lia. f_equal. }
    lia.
  - now rewrite be_dec_h_eq.
Qed.

Lemma check_int_nonempty c : check_int c = true -> c <> [].
Proof. destruct c; [discriminate|discriminate]. Qed.

(** the two INTEGER readers: same acceptance of the element, the standard one additionally refuses negatives *)
Lemma read_int_bytes_alt s :
  read_int_bytes s = match read_asn1 x02 s with
                     | Some (c, r) => if check_int c && negb (top_set c) then Some (strip0_keep1 c, r) else None
                     | None => None end.
Proof.
  unfold read_int_bytes. destruct (read_asn1 x02 s) as [[c r]|]; [|reflexivity].
  destruct (check_int c) eqn:C; [|reflexivity]. destruct c as [|h t]; [discriminate|].
  cbn [top_set andb]. destruct (128 <=? b2n h); reflexivity.
Qed.

Lemma in_range_of_N n v : in_range n (Z.of_N v) = ((0 <? v) && (v <? n)).
Proof. unfold in_range. lia. Qed.
Lemma in_range_neg n z : (z < 0)%Z -> in_range n z = false.
Proof. unfold in_range. lia. Qed.

Theorem parse_equiv_l n sig : fork_accepts n sig = std_accepts n sig.
Proof.
  unfold fork_accepts, std_accepts, fork_parse, std_parse.
  destruct (read_asn1 x30 sig) as [[inner rest]|]; [|reflexivity].
  destruct rest; [|reflexivity].
  rewrite (read_int_bytes_alt inner). unfold read_bigint at 1.
  destruct (read_asn1 x02 inner) as [[c1 i1]|]; [|reflexivity].
  destruct (check_int c1) eqn:C1; [|reflexivity].
  pose proof (signed_val_cases c1 (check_int_nonempty c1 C1)) as [N1 P1].
  destruct (top_set c1) eqn:T1; cbn [andb negb]; cbv beta iota.
  - (* r negative: the standard library refuses the encoding, the fork refuses the range *)
    specialize (N1 eq_refl). unfold read_bigint.
    destruct (read_asn1 x02 i1) as [[c2 i2]|]; [|reflexivity].
    destruct (check_int c2); [|reflexivity]. destruct i2; [|reflexivity].
    now rewrite (in_range_neg n _ N1).
  - specialize (P1 eq_refl). rewrite (read_int_bytes_alt i1). unfold read_bigint.
    destruct (read_asn1 x02 i1) as [[c2 i2]|]; [|reflexivity].
    destruct (check_int c2) eqn:C2; [|reflexivity].
    pose proof (signed_val_cases c2 (check_int_nonempty c2 C2)) as [N2 P2].
    destruct (top_set c2) eqn:T2; cbn [andb negb]; cbv beta iota.
    + specialize (N2 eq_refl). destruct i2; [|reflexivity].
      rewrite (in_range_neg n _ N2). now rewrite andb_false_r.
    + specialize (P2 eq_refl). destruct i2; [|reflexivity].
      unfold nat_in_range. rewrite P1, P2, !in_range_of_N, !be_dec_h_eq, !strip0_keep1_dec, !N2Z.id. reflexivity.
Qed.

Lemma range_equiv_l n z : in_range n z = std_in_range n z.
Proof. unfold in_range, std_in_range. lia. Qed.

(** an accepted signature is within range, and the byte string is the DER encoding of its (r, s) *)
Lemma fork_accepts_range n sig r s : fork_accepts n sig = Some (r, s) -> 0 < r < n /\ 0 < s < n.
Proof.
  unfold fork_accepts. destruct (fork_parse sig) as [[zr zs]|]; [|discriminate].
  destruct (in_range n zr && in_range n zs) eqn:E; [|discriminate]. intros [= <- <-].
  unfold in_range in E. lia.
Qed.

(** hashToInt *)
Lemma pow256 k : 256 ^ k = 2 ^ (8 * k).
Proof. change 256 with (2 ^ 8). now rewrite <- N.pow_mul_r. Qed.

Lemma hash_to_int_bound_l h n : hash_to_int h n < 2 ^ n.
Proof.
  unfold hash_to_int. set (a := firstn _ h). rewrite be_dec_h_eq.
  pose proof (be_dec_lt a) as L. rewrite pow256 in L.
  destruct (n <? 8 * N.of_nat (length a)) eqn:E.
  - rewrite N.shiftr_div_pow2. apply N.div_lt_upper_bound; [apply N.pow_nonzero; lia|].
    rewrite <- N.pow_add_r. replace (8 * N.of_nat (length a) - n + n) with (8 * N.of_nat (length a)) by lia. exact L.
  - eapply N.lt_le_trans; [exact L|]. apply N.pow_le_mono_r; lia.
Qed.

(** for a digest at least as long as the order, the result is the leftmost [n] bits of the WHOLE digest *)
Lemma hash_to_int_leftmost_l h n : n <= 8 * N.of_nat (length h) ->
  hash_to_int h n = be_dec h / 2 ^ (8 * N.of_nat (length h) - n).
Proof.
  intro Hn. unfold hash_to_int. set (ob := N.to_nat ((n + 7) / 8)).
  assert (Hob : 8 * N.of_nat ob >= n /\ 8 * N.of_nat ob < n + 8) by (unfold ob; lia).
  rewrite be_dec_h_eq.
  destruct (le_lt_dec (length h) ob) as [Hl|Hl].
  - rewrite firstn_all2 by exact Hl. destruct (n <? 8 * N.of_nat (length h)) eqn:E.
    + now rewrite N.shiftr_div_pow2.
    + replace (8 * N.of_nat (length h) - n) with 0 by lia. now rewrite N.pow_0_r, N.div_1_r.
  - set (a := firstn ob h). set (b := skipn ob h).
    assert (La : length a = ob) by (unfold a; apply firstn_length_le; lia).
    assert (Lb : (length b = length h - ob)%nat) by (unfold b; apply skipn_length).
    assert (Hd : be_dec h = be_dec a * 256 ^ N.of_nat (length b) + be_dec b).
    { rewrite <- (firstn_skipn ob h) at 1. apply be_dec_app. }
    rewrite Hd, La, Lb. pose proof (be_dec_lt b) as Lt. rewrite Lb in Lt.
    set (M := 256 ^ N.of_nat (length h - ob)) in *.
    assert (HM : M <> 0) by (unfold M; apply N.pow_nonzero; lia).
    assert (Split : 2 ^ (8 * N.of_nat (length h) - n) = M * 2 ^ (8 * N.of_nat ob - n)).
    { unfold M. rewrite pow256, <- N.pow_add_r. f_equal. lia. }
    rewrite Split, <- N.div_div by (try apply N.pow_nonzero; lia).
    rewrite N.div_add_l by exact HM. rewrite (N.div_small (be_dec b) M) by exact Lt. rewrite N.add_0_r.
    destruct (n <? 8 * N.of_nat ob) eqn:E.
    + now rewrite N.shiftr_div_pow2.
    + replace (8 * N.of_nat ob - n) with 0 by lia. now rewrite N.pow_0_r, N.div_1_r.
Qed.

(** entropy *)
Fixpoint total (script : list rd_ev) : nat :=
  match script with Data b :: rest => (length b + total rest)%nat | Fault :: rest => total rest | [] => O end.

Lemma read_full_needs script : forall n acc out rest,
  read_full script n acc = Ok (out, rest) -> (n <= total script)%nat /\ length out = (length acc + n)%nat.
Proof.
  induction script as [|e script IH]; intros n acc out rest H.
  - destruct n; cbn in H; [injection H as <- <-; cbn; lia|discriminate].
  - destruct n as [|n']; [cbn in H; injection H as <- <-; cbn; lia|].
    cbn [read_full] in H. destruct e as [b|]; [|discriminate].
    destruct (Nat.leb (length b) (S n')) eqn:E.
    + apply Nat.leb_le in E. destruct b as [|x b'].
      * apply IH in H. cbn [total length]. lia.
      * apply IH in H. rewrite app_length in H. cbn [total]. lia.
    + apply Nat.leb_gt in E. injection H as <- <-. change (match b with [] => [] | a :: l => a :: firstn n' l end) with (firstn (S n') b).
      rewrite app_length, firstn_length_le by lia. cbn [total]. lia.
Qed.

Lemma read_full_enough script : forall n acc, (n <= available script)%nat ->
  exists out rest, read_full script n acc = Ok (out, rest).
Proof.
  induction script as [|e script IH]; intros n acc H.
  - cbn in H. replace n with O by lia. cbn. eauto.
  - destruct n as [|n']; [cbn; eauto|]. cbn [read_full]. destruct e as [b|]; [|cbn in H; lia].
    cbn [available] in H. destruct (Nat.leb (length b) (S n')) eqn:E.
    + apply Nat.leb_le in E. destruct b as [|x b']; apply IH; cbn [length] in *; lia.
    + eauto.
Qed.

Lemma generate_key_fail_closed_l bitsize script :
  (total script < bitsize / 8 + 8)%nat -> generate_key_entropy bitsize script = Err.
Proof.
  intro H. unfold generate_key_entropy. destruct (read_full script (bitsize / 8 + 8) []) as [[out rest]| |] eqn:E; try reflexivity.
  - apply read_full_needs in E. lia.
  - exfalso. clear H. revert E. generalize (bitsize / 8 + 8)%nat, (@nil byte).
    induction script as [|e s IH]; intros n acc E; destruct n; cbn in E; try discriminate.
    destruct e as [b|]; [|discriminate]. destruct (Nat.leb (length b) (S n)); [|discriminate].
    destruct b; eapply IH; exact E.
Qed.

Lemma total_maybe coin script : (total (maybe_read_byte coin script) <= total script)%nat.
Proof.
  destruct coin; [|cbn; lia]. cbn [maybe_read_byte]. destruct script as [|[b|] rest]; cbn [total]; try lia.
  destruct b as [|x t]; cbn [total length]; [lia|]. destruct t; cbn [total length]; lia.
Qed.

Lemma read_full_never_panics script : forall n acc, read_full script n acc <> Panic.
Proof.
  induction script as [|e s IH]; intros n acc; destruct n; cbn; try discriminate.
  destruct e as [b|]; [|discriminate]. destruct (Nat.leb (length b) (S n)); [|discriminate].
  destruct b; apply IH.
Qed.

Lemma sign_fail_closed_l coin script : (total script < 32)%nat -> sign_entropy coin script = Err.
Proof.
  intro H. unfold sign_entropy. pose proof (total_maybe coin script).
  destruct (read_full (maybe_read_byte coin script) 32 []) as [[out rest]| |] eqn:E; try reflexivity.
  - apply read_full_needs in E. lia.
  - exfalso. eapply read_full_never_panics; exact E.
Qed.

Lemma available_maybe coin script : (available script <= S (available (maybe_read_byte coin script)))%nat.
Proof.
  destruct coin; [|cbn; lia]. cbn [maybe_read_byte]. destruct script as [|[b|] rest]; cbn [available]; try lia.
  destruct b as [|x t]; cbn [available length]; [lia|]. destruct t; cbn [available length]; lia.
Qed.

Lemma sign_succeeds_l coin script : (33 <= available script)%nat -> exists e, sign_entropy coin script = Ok e.
Proof.
  intro H. unfold sign_entropy. pose proof (available_maybe coin script).
  destruct (read_full_enough (maybe_read_byte coin script) 32 [] ltac:(lia)) as (out & rest & E).
  rewrite E. eauto.
Qed.

Lemma generate_key_succeeds_l bitsize script : (bitsize / 8 + 8 <= available script)%nat ->
  exists e, generate_key_entropy bitsize script = Ok e /\ length e = (bitsize / 8 + 8)%nat.
Proof.
  intro H. unfold generate_key_entropy.
  destruct (read_full_enough script (bitsize / 8 + 8) [] H) as (out & rest & E). rewrite E.
  apply read_full_needs in E. exists out. split; [reflexivity|cbn [length] in E; lia].
Qed.
