(** Proofs for the type-5 request and the generic batch lists. *)
From PatVerif Require Import Model.BatchCodecs Proofs.QuicwireP Proofs.CodecsP.
From Coq Require Import ZifyN ZifyNat ZifyBool.
Open Scope N_scope.

(** * varint helper facts *)
Lemma enc_varint_spec v : v <= max_varint -> enc_varint v = enc_spec v.
Proof. intro H. unfold enc_varint. now rewrite append_varint_eq_spec. Qed.

Lemma consume_enc_varint v rest : v <= max_varint ->
  consume_varint (enc_varint v ++ rest) = Some (v, length (enc_varint v)).
Proof.
  intro H. rewrite enc_varint_spec by exact H. rewrite consume_varint_eq_spec, enc_spec_length.
  now apply consume_enc_spec.
Qed.

(** a decoded varint is never shorter than its minimal encoding *)
Lemma consume_min b v n : consume_varint b = Some (v, n) -> (size_spec v <= n)%nat /\ v <= max_varint.
Proof.
  rewrite consume_varint_eq_spec. destruct b as [|c0 t]; [discriminate|]. unfold consume_spec.
  destruct (Nat.ltb (length (c0 :: t)) (announced c0)) eqn:E; [discriminate|]. apply Nat.ltb_ge in E.
  intro H. inversion H; subst n; clear H.
  assert (Hm : b2n c0 mod 64 < 64) by (apply N.mod_lt; lia).
  pose proof (be_dec_lt (firstn (announced c0 - 1) t)) as Hd.
  pose proof (announced_pos c0) as Hk.
  rewrite firstn_length_le in Hd by (cbn [length] in E; lia).
  set (lo := be_dec (firstn (announced c0 - 1) t)) in *. set (hi := b2n c0 mod 64) in *.
  unfold announced in *. unfold size_spec, max_varint.
  change (2 ^ 6) with 64. change (2 ^ 14) with 16384. change (2 ^ 30) with 1073741824.
  destruct (class_of c0) as [|[[[]|[]|]|[[]|[]|]|]].
  all: cbn [Nat.sub N.of_nat Pos.of_succ_nat Pos.succ] in Hd |- *.
  all: try change (256 ^ 0) with 1 in *; try change (256 ^ 1) with 256 in *;
       try change (256 ^ 3) with 16777216 in *; try change (256 ^ 7) with 72057594037927936 in *.
  all: destruct (hi * _ + lo <? 64) eqn:F1; [lia|];
       destruct (hi * _ + lo <? 16384) eqn:F2; [lia|];
       destruct (hi * _ + lo <? 1073741824) eqn:F3; lia.
Qed.

Lemma length_enc_varint v : v <= max_varint -> length (enc_varint v) = size_spec v.
Proof. intro H. rewrite enc_varint_spec by exact H. apply enc_spec_length. Qed.

(** * Type 5 *)
Lemma concat32_length (l : list (list byte)) :
  Forall (fun e => length e = 32%nat) l -> length (concat l) = (32 * length l)%nat.
Proof. induction 1 as [|x l Hx _ IH]; cbn [concat length]; [reflexivity|]. rewrite app_length, Hx, IH. lia. Qed.

Lemma chunks32_concat (l : list (list byte)) tl :
  Forall (fun e => length e = 32%nat) l -> chunks32 (length l) (concat l ++ tl) = l.
Proof.
  induction 1 as [|x l Hx _ IH]; cbn [concat length chunks32]; [reflexivity|].
  rewrite <- app_assoc. rewrite firstn_app, Hx, Nat.sub_diag, firstn_O, app_nil_r.
  rewrite <- Hx at 1. rewrite firstn_all.
  rewrite skipn_app, Hx, Nat.sub_diag, skipn_O. rewrite <- Hx at 1. rewrite skipn_all. cbn [app].
  now rewrite IH.
Qed.

Lemma chunks32_spec n s : length s = (32 * n)%nat ->
  Forall (fun e => length e = 32%nat) (chunks32 n s) /\ concat (chunks32 n s) = s /\ length (chunks32 n s) = n.
Proof.
  revert s. induction n as [|n IH]; intros s H; cbn [chunks32 concat length].
  - destruct s; [auto|cbn in H; lia].
  - destruct (IH (skipn 32 s)) as (F & C & L); [rewrite skipn_length; lia|].
    split; [constructor; [apply firstn_length_le; lia|exact F]|]. split; [|now rewrite L].
    rewrite C. apply firstn_skipn.
Qed.

Lemma um_req5_enc old r tl : wf_req5 r -> um_req5 old (enc_req5 r ++ tl) = (true, r).
Proof.
  intros (Hk & Hf & Hm). unfold um_req5, enc_req5. cbn zeta.
  set (body := concat (q5_elems r)) in *.
  rewrite <- ?app_assoc. rewrite read_u16_app by lia. cbn [N.eqb Pos.eqb negb].
  rewrite read_u8_app by exact Hk. rewrite consume_enc_varint by exact Hm.
  rewrite skipn_app, Nat.sub_diag, skipn_all, skipn_O. cbn [app].
  rewrite app_length.
  replace (N.of_nat (length body + length tl) <? N.of_nat (length body)) with false
    by (symmetry; apply N.ltb_ge; lia).
  rewrite Nat2N.id, firstn_app, Nat.sub_diag, firstn_O, app_nil_r, firstn_all.
  unfold body. rewrite (concat32_length _ Hf).
  replace ((32 * length (q5_elems r)) mod 32)%nat with 0%nat
    by (symmetry; rewrite Nat.mul_comm; apply Nat.mod_mul; lia).
  cbn [Nat.eqb negb]. replace ((32 * length (q5_elems r)) / 32)%nat with (length (q5_elems r))
    by (symmetry; rewrite Nat.mul_comm; apply Nat.div_mul; lia).
  rewrite <- (app_nil_r (concat (q5_elems r))), chunks32_concat by exact Hf. destruct r; reflexivity.
Qed.

Lemma um_req5_inv old s r : um_req5 old s = (true, r) ->
  wf_req5 r /\ (length (enc_req5 r) <= length s)%nat.
Proof.
  unfold um_req5. destruct (read_u16 s) as [[t s1]|] eqn:E1; [|discriminate].
  destruct (t =? 5) eqn:Et; cbn [negb]; [|discriminate]. apply N.eqb_eq in Et. subst t.
  destruct (read_u8 s1) as [[k s2]|] eqn:E2; [|discriminate].
  destruct (consume_varint s2) as [[l off]|] eqn:E3; [|discriminate].
  destruct (N.of_nat (length (skipn off s2)) <? l) eqn:E4; [discriminate|]. apply N.ltb_ge in E4.
  set (body := firstn (N.to_nat l) (skipn off s2)) in *.
  destruct (Nat.eqb (length body mod 32) 0) eqn:E5; cbn [negb]; [|discriminate]. apply Nat.eqb_eq in E5.
  intro H. apply (f_equal snd) in H. cbn [snd] in H. subst r.
  apply read_u16_inv in E1. destruct E1 as [-> _].
  apply read_u8_inv in E2. destruct E2 as [-> Hk].
  assert (Hbl : length body = N.to_nat l) by (unfold body; apply firstn_length_le; lia).
  assert (Hdiv : length body = (32 * (length body / 32))%nat).
  { rewrite (Nat.div_mod (length body) 32) at 1 by lia. lia. }
  destruct (chunks32_spec (length body / 32) body Hdiv) as (F & C & L).
  destruct (consume_min _ _ _ E3) as [Hmin Hmax].
  pose proof (consume_varint_le _ _ _ E3) as Hoff.
  rewrite skipn_length in E4.
  split.
  - unfold wf_req5. cbn [q5_keyid q5_elems]. rewrite C. split; [exact Hk|]. split; [exact F|]. lia.
  - unfold enc_req5. cbn [q5_keyid q5_elems]. rewrite C.
    rewrite !app_length, u16_length, u8_length, length_enc_varint by lia.
    rewrite Hbl, N2Nat.id. lia.
Qed.

Lemma um_req5_type_sep old s t r : read_u16 s = Some (t, r) -> t <> 5 -> fst (um_req5 old s) = false.
Proof.
  intros E Hne. unfold um_req5. rewrite E. destruct (t =? 5) eqn:Et; [apply N.eqb_eq in Et; congruence|]. reflexivity.
Qed.

(** * Generic batch request list *)
Lemma enc_bitem_len it : wf_bitem it -> (3 <= length (enc_bitem it))%nat.
Proof. intros _. unfold enc_bitem, enc_req12. rewrite !app_length. cbn. lia. Qed.

Lemma dec_items_enc l : Forall wf_bitem l -> forall fuel tl0, (length l <= fuel)%nat -> tl0 = [] ->
  dec_items fuel (concat (map enc_bitem l) ++ tl0) = Some l.
Proof.
  induction 1 as [|it l Hit _ IH]; intros fuel tl0 Hf ->.
  - destruct fuel; reflexivity.
  - destruct fuel as [|f]; [cbn in Hf; lia|]. cbn [map concat]. rewrite app_nil_r.
    destruct it as [ty r]. unfold enc_bitem at 1. cbn [fst snd].
    assert (Hty : ty < 65536) by (destruct Hit as [[E _]|[E _]]; cbn in E; lia).
    remember (concat (map enc_bitem l)) as rest.
    assert (Hne : enc_req12 ty r ++ rest <> []) by (unfold enc_req12, u16; discriminate).
    cbn [dec_items]. destruct (enc_req12 ty r ++ rest) as [|z zs] eqn:Ez; [congruence|]. rewrite <- Ez.
    replace (read_u16 (enc_req12 ty r ++ rest)) with (Some (ty, u8 (q_keyid r) ++ q_blinded r ++ rest))
      by (unfold enc_req12; rewrite <- ?app_assoc; symmetry; apply read_u16_app; exact Hty).
    destruct Hit as [[E W]|[E W]]; cbn [fst snd] in E, W; subst ty; cbn [N.eqb Pos.eqb].
    + rewrite um_req12_enc by (try lia; exact W).
      rewrite skipn_app, Nat.sub_diag, skipn_all, skipn_O. cbn [app].
      subst rest. rewrite <- (app_nil_r (concat (map enc_bitem l))).
      rewrite IH by (cbn [length] in Hf; try lia; reflexivity). reflexivity.
    + rewrite um_req12_enc by (try lia; exact W).
      rewrite skipn_app, Nat.sub_diag, skipn_all, skipn_O. cbn [app].
      subst rest. rewrite <- (app_nil_r (concat (map enc_bitem l))).
      rewrite IH by (cbn [length] in Hf; try lia; reflexivity). reflexivity.
Qed.

Lemma dec_items_inv fuel : forall s l, dec_items fuel s = Some l ->
  Forall wf_bitem l /\ s = concat (map enc_bitem l).
Proof.
  induction fuel as [|f IH]; intros s l.
  - destruct s; cbn [dec_items]; [|discriminate]. intro H; inversion H. split; [constructor|reflexivity].
  - destruct s as [|z zs] eqn:Es; cbn [dec_items]; [intro H; inversion H; split; [constructor|reflexivity]|].
    rewrite <- Es. destruct (read_u16 s) as [[ty s1]|] eqn:E1; [|discriminate].
    destruct (ty =? 1) eqn:T1; [|destruct (ty =? 2) eqn:T2; [|discriminate]].
    + apply N.eqb_eq in T1. subst ty.
      destruct (um_req12 1 ne1 fresh_breq s) as [[|] r] eqn:U; [|discriminate].
      destruct (dec_items f (skipn (length (enc_req12 1 r)) s)) as [l'|] eqn:D; [|discriminate].
      intro H; inversion H; subst l; clear H.
      apply um_req12_inv in U. destruct U as (W & _ & tl & Hs).
      rewrite Hs in D. rewrite skipn_app, Nat.sub_diag, skipn_all, skipn_O in D. cbn [app] in D.
      apply IH in D. destruct D as [F ->]. split; [constructor; [left; auto|exact F]|].
      cbn [map concat]. exact Hs.
    + apply N.eqb_eq in T2. subst ty.
      destruct (um_req12 2 ne2 fresh_breq s) as [[|] r] eqn:U; [|discriminate].
      destruct (dec_items f (skipn (length (enc_req12 2 r)) s)) as [l'|] eqn:D; [|discriminate].
      intro H; inversion H; subst l; clear H.
      apply um_req12_inv in U. destruct U as (W & _ & tl & Hs).
      rewrite Hs in D. rewrite skipn_app, Nat.sub_diag, skipn_all, skipn_O in D. cbn [app] in D.
      apply IH in D. destruct D as [F ->]. split; [constructor; [right; auto|exact F]|].
      cbn [map concat]. exact Hs.
Qed.

Lemma items_le_bytes l : Forall wf_bitem l -> (length l <= length (concat (map enc_bitem l)))%nat.
Proof.
  induction 1 as [|it l Hit _ IH]; cbn [map concat length]; [lia|].
  rewrite app_length. pose proof (enc_bitem_len it Hit). lia.
Qed.

Lemma dec_enc_batch l tl : wf_batch l -> dec_batch (enc_batch l ++ tl) = Some l.
Proof.
  intros [F Hm]. unfold dec_batch, enc_batch. cbn zeta.
  set (body := concat (map enc_bitem l)) in *.
  rewrite <- app_assoc. rewrite consume_enc_varint by exact Hm.
  rewrite !app_length.
  replace (N.of_nat (length (enc_varint (N.of_nat (length body))) + (length body + length tl)
                     - length (enc_varint (N.of_nat (length body)))) <? N.of_nat (length body))
    with false by (symmetry; apply N.ltb_ge; lia).
  rewrite skipn_app, Nat.sub_diag, skipn_all, skipn_O. cbn [app].
  rewrite Nat2N.id, firstn_app, Nat.sub_diag, firstn_O, app_nil_r, firstn_all.
  rewrite <- (app_nil_r body). apply dec_items_enc; [exact F| |reflexivity].
  rewrite app_nil_r. now apply items_le_bytes.
Qed.

Lemma dec_batch_inv b l : dec_batch b = Some l ->
  wf_batch l /\ (length (enc_batch l) <= length b)%nat.
Proof.
  unfold dec_batch. destruct (consume_varint b) as [[n off]|] eqn:E; [|discriminate].
  destruct (N.of_nat (length b - off) <? n) eqn:E2; [discriminate|]. apply N.ltb_ge in E2.
  intro D. apply dec_items_inv in D. destruct D as [F Hb].
  destruct (consume_min _ _ _ E) as [Hmin Hmax].
  pose proof (consume_varint_le _ _ _ E) as Hoff.
  assert (Hl : length (concat (map enc_bitem l)) = N.to_nat n).
  { rewrite <- Hb. apply firstn_length_le. rewrite skipn_length. lia. }
  split; [split; [exact F|lia]|].
  unfold enc_batch. rewrite app_length, length_enc_varint by lia. rewrite Hl, N2Nat.id. lia.
Qed.

(** * Response list *)
Lemma enc_resp_item_145 r : length r = 145%nat -> enc_resp_item r = x01 :: u16 1 ++ r.
Proof. intro H. destruct r; [discriminate|]. unfold enc_resp_item. now rewrite H. Qed.
Lemma enc_resp_item_256 r : length r = 256%nat -> enc_resp_item r = x01 :: u16 2 ++ r.
Proof. intro H. destruct r; [discriminate|]. unfold enc_resp_item. now rewrite H. Qed.
Lemma dec_resp_items_enc l : Forall wf_resp l -> forall fuel, (length l <= fuel)%nat ->
  dec_resp_items fuel (concat (map enc_resp_item l)) = Some l.
Proof.
  induction 1 as [|r l Hr _ IH]; intros fuel Hf.
  - destruct fuel; reflexivity.
  - destruct fuel as [|f]; [cbn in Hf; lia|]. cbn [map concat]. cbn [length] in Hf.
    destruct Hr as [->|[Hr|Hr]].
    + cbn [enc_resp_item app dec_resp_items]. change (b2n x00 =? 0) with true. cbn iota.
      rewrite IH by lia. reflexivity.
    + rewrite enc_resp_item_145 by exact Hr.
      cbn [app dec_resp_items]. change (b2n x01 =? 0) with false. change (b2n x01 =? 1) with true. cbn iota.
      rewrite <- app_assoc, read_u16_app by lia. cbn [resp_len].
      rewrite read_bytes_app by exact Hr. rewrite IH by lia. reflexivity.
    + rewrite enc_resp_item_256 by exact Hr.
      cbn [app dec_resp_items]. change (b2n x01 =? 0) with false. change (b2n x01 =? 1) with true. cbn iota.
      rewrite <- app_assoc, read_u16_app by lia. cbn [resp_len].
      rewrite read_bytes_app by exact Hr. rewrite IH by lia. reflexivity.
Qed.

Lemma dec_resp_items_inv fuel : forall s l, dec_resp_items fuel s = Some l ->
  Forall wf_resp l /\ s = concat (map enc_resp_item l).
Proof.
  induction fuel as [|f IH]; intros s l.
  - destruct s; cbn [dec_resp_items]; [|discriminate]. intro H; inversion H. split; [constructor|reflexivity].
  - destruct s as [|p s1]; cbn [dec_resp_items]; [intro H; inversion H; split; [constructor|reflexivity]|].
    destruct (b2n p =? 0) eqn:P0.
    + destruct (dec_resp_items f s1) as [rest|] eqn:D; [|discriminate]. intro H; inversion H; subst l; clear H.
      apply IH in D. destruct D as [F ->]. split; [constructor; [now left|exact F]|].
      cbn [map concat enc_resp_item app]. f_equal. apply b2n_inj. apply N.eqb_eq in P0. now rewrite P0.
    + destruct (b2n p =? 1) eqn:P1; [|discriminate].
      destruct (read_u16 s1) as [[ty s2]|] eqn:E1; [|discriminate].
      destruct (resp_len ty) as [n|] eqn:En; [|discriminate].
      destruct (read_bytes n s2) as [[r s3]|] eqn:E2; [|discriminate].
      destruct (dec_resp_items f s3) as [rest|] eqn:D; [|discriminate]. intro H; inversion H; subst l; clear H.
      apply IH in D. destruct D as [F ->].
      apply read_u16_inv in E1. destruct E1 as [-> _]. apply read_bytes_inv in E2. destruct E2 as [-> Hn].
      assert (Hp : p = x01) by (apply b2n_inj; apply N.eqb_eq in P1; now rewrite P1). subst p.
      unfold resp_len in En.
      destruct ty as [|[[]|[]|]]; try discriminate; injection En as En'; rewrite <- En' in Hn.
      * (* type 2 *) split; [constructor; [right; right; exact Hn|exact F]|].
        cbn [map concat]. rewrite enc_resp_item_256 by exact Hn. cbn [app]. now rewrite <- ?app_assoc.
      * (* type 1 *) split; [constructor; [right; left; exact Hn|exact F]|].
        cbn [map concat]. rewrite enc_resp_item_145 by exact Hn. cbn [app]. now rewrite <- ?app_assoc.
Qed.

Lemma resp_items_le_bytes l : (length l <= length (concat (map enc_resp_item l)))%nat.
Proof.
  induction l as [|r l IH]; cbn [map concat length]; [lia|]. rewrite app_length.
  assert (1 <= length (enc_resp_item r))%nat by (destruct r; cbn; lia). lia.
Qed.

Lemma dec_enc_resps l tl : Forall wf_resp l ->
  N.of_nat (length (concat (map enc_resp_item l))) <= max_varint ->
  dec_resps (enc_resps l ++ tl) = Some l.
Proof.
  intros F Hm. unfold dec_resps, enc_resps. cbn zeta.
  set (body := concat (map enc_resp_item l)) in *.
  rewrite <- app_assoc. rewrite consume_enc_varint by exact Hm.
  rewrite !app_length.
  replace (N.of_nat (length (enc_varint (N.of_nat (length body))) + (length body + length tl)
                     - length (enc_varint (N.of_nat (length body)))) <? N.of_nat (length body))
    with false by (symmetry; apply N.ltb_ge; lia).
  rewrite skipn_app, Nat.sub_diag, skipn_all, skipn_O. cbn [app].
  rewrite Nat2N.id, firstn_app, Nat.sub_diag, firstn_O, app_nil_r, firstn_all.
  apply dec_resp_items_enc; [exact F|]. apply resp_items_le_bytes.
Qed.

Lemma dec_resps_inv b l : dec_resps b = Some l ->
  Forall wf_resp l /\ (length (enc_resps l) <= length b)%nat /\
  N.of_nat (length (concat (map enc_resp_item l))) <= max_varint.
Proof.
  unfold dec_resps. destruct (consume_varint b) as [[n off]|] eqn:E; [|discriminate].
  destruct (N.of_nat (length b - off) <? n) eqn:E2; [discriminate|]. apply N.ltb_ge in E2.
  intro D. apply dec_resp_items_inv in D. destruct D as [F Hb].
  destruct (consume_min _ _ _ E) as [Hmin Hmax].
  pose proof (consume_varint_le _ _ _ E) as Hoff.
  assert (Hl : length (concat (map enc_resp_item l)) = N.to_nat n).
  { rewrite <- Hb. apply firstn_length_le. rewrite skipn_length. lia. }
  split; [exact F|]. split; [|lia].
  unfold enc_resps. rewrite app_length, length_enc_varint by lia. rewrite Hl, N2Nat.id. lia.
Qed.
