(** Conc.v — Layer D: goroutines as sequences of memory actions on shared locations, interleaving semantics, and
    data races in the sense of the Go memory model restricted to what the issuers and keys do: plain reads, plain
    writes, and initialisation guarded by sync.Once (which orders the initialising write before every return of Do). *)
From Coq Require Import List Arith NArith Lia Bool.
Import ListNotations.

Inductive act :=
| Rd (l : nat)                   (* plain read of a shared location *)
| Wr (l : nat) (v : N)           (* plain write *)
| Once (l : nat) (v : N).        (* once.Do(func(){ cell = v }) followed by a read of the cell *)

Definition loc (a : act) : nat := match a with Rd l | Wr l _ | Once l _ => l end.
Definition plain_write (a : act) : bool := match a with Wr _ _ => true | _ => false end.
Definition plain (a : act) : bool := match a with Once _ _ => false | _ => true end.
(** two accesses conflict when they touch the same location, at least one is a plain write, and they are not both
    mediated by the Once of that location *)
Definition conflict (a b : act) : bool :=
  Nat.eqb (loc a) (loc b) && (plain_write a || plain_write b).

Definition thread := list act.
(** no synchronisation exists between the goroutines other than Once: conflicting accesses of two different
    goroutines are unordered, i.e. a data race *)
Definition racy (ts : list thread) : Prop :=
  exists i j ti tj a b, i <> j /\ nth_error ts i = Some ti /\ nth_error ts j = Some tj /\
                        In a ti /\ In b tj /\ conflict a b = true.

(** ** interleaving semantics *)
Definition heap := nat -> option N.
Definition upd (h : heap) (l : nat) (v : N) : heap := fun x => if Nat.eqb x l then Some v else h x.
(** one step: the new heap and what the acting goroutine observes *)
Definition step (h : heap) (a : act) : heap * option N :=
  match a with
  | Rd l => (h, h l)
  | Wr l v => (upd h l v, Some v)
  | Once l v => match h l with Some w => (h, Some w) | None => (upd h l v, Some v) end
  end.
(** a schedule is a list of (goroutine id, action); each goroutine's observations are collected in order *)
Fixpoint run (h : heap) (sched : list (nat * act)) : heap * list (nat * option N) :=
  match sched with
  | [] => (h, [])
  | (i, a) :: rest =>
    let '(h1, o) := step h a in
    let '(h2, obs) := run h1 rest in (h2, (i, o) :: obs)
  end.
Definition obs_of (i : nat) (obs : list (nat * option N)) : list (option N) :=
  map snd (filter (fun p => Nat.eqb (fst p) i) obs).
Definition acts_of (i : nat) (sched : list (nat * act)) : list act :=
  map snd (filter (fun p => Nat.eqb (fst p) i) sched).
(** the goroutine running alone from the same heap *)
Definition alone (h : heap) (t : thread) : list (option N) := map snd (snd (run h (map (fun a => (0, a)) t))).
