package main

import (
	"bytes"
	"crypto/elliptic"
	crand "crypto/rand"
	"fmt"
	"math/big"
	"os"
	"runtime"
	"strings"
	"time"

	"github.com/cloudflare/circl/oprf"
	"github.com/cloudflare/pat-go/ecdsa"
	"github.com/cloudflare/pat-go/ed25519"
	"github.com/cloudflare/pat-go/quicwire"
	"github.com/cloudflare/pat-go/tokens"
	"github.com/cloudflare/pat-go/tokens/batched"
	"github.com/cloudflare/pat-go/tokens/type1"
	"github.com/cloudflare/pat-go/tokens/type2"
	"github.com/cloudflare/pat-go/tokens/type3"
	"github.com/cloudflare/pat-go/tokens/type5"
	"github.com/cloudflare/pat-go/util"
	"verif/harness/internal/h"
)

func init() { props["C03"] = runC03 }

// a target consumes peer bytes; it reports ok=true when the implementation accepted the input
type target struct {
	name  string
	f     func(in []byte) (ok bool)
	seeds [][]byte // valid messages to mutate
	fe    string   // model front-end function, "" if none
	feArg func(in []byte) [][]byte
}

var journal *os.File

func journalCase(fn string, in []byte) {
	if journal == nil {
		return
	}
	journal.Seek(0, 0)
	journal.Truncate(0)
	s := h.Hex(in)
	if len(s) > 4096 {
		s = s[:4096] + "..."
	}
	fmt.Fprintf(journal, "%s %d %s\n", fn, len(in), s)
}

// hung counts calls of a target that did not return: after two, its remaining inputs are skipped (each would cost the
// full watchdog time) — the violation is on record with its input
var hung = map[string]int{}

func measure(c *h.Ctx, t target, cat_ string, in []byte) {
	if hung[t.name] >= 2 {
		c.Count(t.name+":skipped-after-hangs", 1, "")
		return
	}
	if in != nil {
		// an exact-capacity copy: a read past the end of the message must fault, not silently read the spare
		// capacity of a longer buffer the message was cut from
		in = append(make([]byte, 0, len(in)), in...)
	}
	journalCase(t.name, in)
	var ms0, ms1 runtime.MemStats
	runtime.ReadMemStats(&ms0)
	var ok bool
	var pan bool
	var msg string
	done := make(chan struct{})
	go func() {
		defer close(done)
		pan, msg = h.Protect(func() { ok = t.f(in) })
	}()
	select {
	case <-done:
	case <-time.After(20 * time.Second):
		hung[t.name]++
		// the call did not return: reported, the goroutine is abandoned (nothing it does later is looked at)
		c.Count(t.name+":"+cat_, 1, t.name+"hang"+h.Hex(in[:minInt(len(in), 24)]))
		c.Violation("a step that consumes peer bytes fails to terminate (no result after 20 s)", map[string]any{"function": t.name, "category": cat_, "input_len": len(in), "input": h.Hex(in[:minInt(len(in), 600)])})
		return
	}
	runtime.ReadMemStats(&ms1)
	alloc := ms1.TotalAlloc - ms0.TotalAlloc
	verdict := h.StNone
	if pan {
		verdict = h.StPanic
	} else if ok {
		verdict = h.StOK
	}
	if t.fe != "" {
		args := [][]byte{verdict}
		if t.feArg != nil {
			args = append(args, t.feArg(in)...)
		} else {
			args = append(args, in)
		}
		c.Case(t.name+":"+cat_, true, t.fe, args, [][]byte{h.StOK})
	} else {
		c.Count(t.name+":"+cat_, 1, t.name+h.Hex(in[:minInt(len(in), 24)])+fmt.Sprint(len(in)))
	}
	det := map[string]any{"function": t.name, "category": cat_, "input_len": len(in), "input": h.Hex(in[:minInt(len(in), 600)])}
	if pan {
		det["panic"] = msg
		c.Violation("panic on peer-supplied bytes", det)
	}
	if alloc > 1<<20+256*uint64(len(in)) {
		det["allocated"] = alloc
		c.Violation("allocation out of proportion to the input size", det)
	}
}

func minInt(a, b int) int {
	if a < b {
		return a
	}
	return b
}

var specials = []byte{0x00, 0x01, 0x20, 0x3f, 0x40, 0x41, 0x7f, 0x80, 0xbf, 0xc0, 0xfe, 0xff}

func mutate(c *h.Ctx, t target, m []byte) {
	measure(c, t, "valid", m)
	step := 1
	if len(m) > 200 && !c.Thorough() {
		step = 1 + len(m)/150
	}
	if len(m) > 4096 && c.Thorough() { // long seeds (lists of thousands of elements): every position would be quadratic
		step = 1 + len(m)/3000
	}
	for l := 0; l < len(m); l++ {
		if l < 24 || l > len(m)-24 || l%step == 0 {
			measure(c, t, "truncation", m[:l])
		}
	}
	for _, ext := range [][]byte{{0}, {0xff, 0xff}, {1, 2, 3}} {
		measure(c, t, "extension", cat(m, ext))
	}
	// every length/count field: each of the first bytes (and a few deeper ones) set to boundary values
	pos := map[int]bool{}
	for i := 0; i < len(m) && i < 14; i++ {
		pos[i] = true
	}
	for _, i := range []int{81, 82, 83, 84, 98, 99, 100, len(m) - 98, len(m) - 97, len(m) - 1} {
		if i >= 0 && i < len(m) {
			pos[i] = true
		}
	}
	for i := range pos {
		for _, v := range specials {
			x := append([]byte{}, m...)
			x[i] = v
			measure(c, t, "length-field-bytes", x)
		}
	}
	// huge varints spliced at every early offset
	for _, v := range []uint64{1 << 14, 1 << 30, 1 << 32, 1 << 40, 1<<62 - 1} {
		vb := quicwire.AppendVarint(nil, v)
		for off := 0; off <= 4 && off <= len(m); off++ {
			measure(c, t, "huge-varint-spliced", cat(m[:off], vb, m[minInt(len(m), off+1):]))
			measure(c, t, "huge-varint-only", cat(m[:off], vb))
		}
	}
	// single-bit flips
	bstep := 1
	if !c.Thorough() {
		bstep = 1 + 8*len(m)/400
	} else if len(m) > 2048 {
		bstep = 1 + 8*len(m)/16000
	}
	for i := 0; i < 8*len(m); i += bstep {
		measure(c, t, "bitflip", flipBit(m, i))
	}
}

func runC03(c *h.Ctx) {
	jf, err := os.Create(os.Getenv("VERIF_JOURNAL"))
	if err == nil {
		journal = jf
		defer jf.Close()
	}
	// ---- fixtures -----------------------------------------------------------------------------
	k1, _ := oprf.GenerateKey(oprf.SuiteP384, crand.Reader)
	k5, _ := oprf.GenerateKey(oprf.SuiteRistretto255, crand.Reader)
	iss1 := type1.NewBasicPrivateIssuer(k1)
	iss2 := type2.NewBasicPublicIssuer(rsaKey(0))
	iss5 := type5.NewBatchedPrivateIssuer(k5)
	challenge := tokens.TokenChallenge{TokenType: 2, IssuerName: "issuer.example", RedemptionNonce: rnd(c, 32), OriginInfo: []string{"a.example", "b.example"}}.Marshal()
	st1, _ := type1.BasicPrivateClient{}.CreateTokenRequest(challenge, rnd(c, 32), iss1.TokenKeyID(), iss1.TokenKey())
	st2, _ := type2.BasicPublicClient{}.CreateTokenRequest(challenge, rnd(c, 32), iss2.TokenKeyID(), iss2.TokenKey())
	nonces := [][]byte{rnd(c, 32), rnd(c, 32), rnd(c, 32)}
	st5, _ := type5.BatchedPrivateClient{}.CreateTokenRequest(challenge, nonces, iss5.TokenKeyID(), iss5.TokenKey())
	resp1, _ := iss1.Evaluate(st1.Request())
	resp2, _ := iss2.Evaluate(st2.Request())
	resp5, _ := iss5.Evaluate(st5.Request())
	tok1, _ := st1.FinalizeToken(resp1)
	tok2, _ := st2.FinalizeToken(resp2)
	toks5, _ := st5.FinalizeTokens(resp5)
	name32, name64 := strings.Repeat("a", 32), strings.Repeat("b.example.", 7)[:64]
	env := newT3(c, 0, rnd(c, 32), map[string][]byte{"origin.example": rnd(c, 48), "": rnd(c, 48), name32: rnd(c, 48), name64: rnd(c, 48)})
	is7 := newC07Issuer(c, 0, []string{"origin.example", "", name32, name64})
	client3 := type3.NewRateLimitedClientFromSecret(rnd(c, 48))
	blind3 := rnd(c, 48)
	st3, _ := env.request(client3, challenge, rnd(c, 32), blind3, "origin.example")
	req3b := st3.Request().Marshal()
	resp3, brk3, err3 := env.issuer.Evaluate(req3b)
	if err3 != nil {
		c.Violation("fixture: honest type-3 evaluation failed", map[string]any{"err": err3.Error()})
		return
	}
	tok3, _ := st3.FinalizeToken(resp3)
	inner := type3.VerifNewInner(7, rnd(c, 256), type3.VerifPadOriginName("origin.example")).Marshal()
	blinded0 := cat([]byte{0}, rnd(c, 255)) // below every modulus
	inner0 := type3.VerifNewInner(is7.env.tokenKeyID[31], blinded0, type3.VerifPadOriginName("origin.example")).Marshal()
	inner32 := type3.VerifNewInner(is7.env.tokenKeyID[31], blinded0, []byte(name32)).Marshal() // padded origin without any zero byte
	breq, _ := batched.BatchedClient{}.CreateTokenRequest([]tokens.TokenRequestWithDetails{st1.Request(), st2.Request(), st1.Request()})
	bissuer := batched.NewBasicBatchedIssuer(wrap1{iss1}, wrap2{iss2})
	bissuer1 := batched.NewBasicBatchedIssuer(wrap1{iss1})
	bissuer2 := batched.NewBasicBatchedIssuer(wrap2{iss2})
	bresp, _ := bissuer.EvaluateBatch(breq)
	tokenKeyPSS, _ := util.MarshalTokenKeyPSSOID(&rsaKey(0).PublicKey)
	tokenKeyLegacy, _ := util.MarshalTokenKeyRSAEncryptionOID(&rsaKey(0).PublicKey)
	ecPriv, _ := ecdsa.GenerateKey(elliptic.P384(), crand.Reader)
	digest := rnd(c, 48)
	asn1sig, _ := ecdsa.SignASN1(crand.Reader, ecPriv, digest)
	edPub, edPriv, _ := ed25519.GenerateKey(crand.Reader)
	edMsg := rnd(c, 40)
	edSig := ed25519.Sign(edPriv, edMsg)

	targets := []target{
		{name: "tokens.UnmarshalTokenChallenge", seeds: [][]byte{challenge}, f: func(in []byte) bool { _, e := tokens.UnmarshalTokenChallenge(in); return e == nil }},
		{name: "type1.UnmarshalPrivateToken+Verify", seeds: [][]byte{tok1.Marshal()}, f: func(in []byte) bool {
			t, e := type1.UnmarshalPrivateToken(in)
			if e != nil {
				return false
			}
			return iss1.Verify(t) == nil
		}},
		{name: "type2.UnmarshalToken", seeds: [][]byte{tok2.Marshal()}, f: func(in []byte) bool { _, e := type2.UnmarshalToken(in); return e == nil }},
		{name: "type3.UnmarshalToken", seeds: [][]byte{tok3.Marshal()}, f: func(in []byte) bool { _, e := type3.UnmarshalToken(in); return e == nil }},
		{name: "type5.UnmarshalBatchedPrivateToken+Verify", seeds: [][]byte{toks5[0].Marshal()}, f: func(in []byte) bool {
			t, e := type5.UnmarshalBatchedPrivateToken(in)
			if e != nil {
				return false
			}
			return iss5.Verify(t) == nil
		}},
		{name: "type1.Request.Unmarshal+Evaluate", seeds: [][]byte{st1.Request().Marshal()}, f: func(in []byte) bool {
			r := new(type1.BasicPrivateTokenRequest)
			if !r.Unmarshal(in) {
				return false
			}
			_, e := iss1.Evaluate(r)
			return e == nil
		}},
		{name: "type2.Request.Unmarshal+Evaluate", seeds: [][]byte{st2.Request().Marshal()}, f: func(in []byte) bool {
			r := new(type2.BasicPublicTokenRequest)
			if !r.Unmarshal(in) {
				return false
			}
			_, e := iss2.Evaluate(r)
			return e == nil
		}},
		{name: "type5.Request.Unmarshal+Evaluate", seeds: [][]byte{st5.Request().Marshal()}, f: func(in []byte) bool {
			r := new(type5.BatchedPrivateTokenRequest)
			if !r.Unmarshal(in) {
				return false
			}
			_, e := iss5.Evaluate(r)
			return e == nil
		}},
		{name: "type3.Request.Unmarshal+attester.VerifyRequest", seeds: [][]byte{req3b}, f: func(in []byte) bool {
			r := new(type3.RateLimitedTokenRequest)
			if !r.Unmarshal(in) {
				return false
			}
			att := type3.NewRateLimitedAttester(newRecCache())
			return att.VerifyRequest(*r, blind3, st3.ClientKey(), []byte("anon")) == nil
		}},
		{name: "type3.Issuer.Evaluate", seeds: [][]byte{req3b}, fe: "fe_eval3", f: func(in []byte) bool { _, _, e := env.issuer.Evaluate(in); return e == nil }},
		{name: "type3.Issuer.Evaluate(authentic envelope, inner plaintext)", seeds: [][]byte{inner0, inner32}, f: func(in []byte) bool {
			wire, err := craftType3(c, is7, client3, in)
			if err != nil {
				return false
			}
			_, _, e := is7.env.issuer.Evaluate(wire)
			return e == nil
		}},
		{name: "type3.InnerTokenRequest.Unmarshal", seeds: [][]byte{inner}, f: func(in []byte) bool { return new(type3.InnerTokenRequest).Unmarshal(in) }},
		{name: "type3.UnmarshalEncapKey", seeds: [][]byte{env.nameKey.Marshal()}, f: func(in []byte) bool { _, e := type3.UnmarshalEncapKey(in); return e == nil }},
		{name: "batched.Request.Unmarshal+EvaluateBatch", seeds: [][]byte{breq.Marshal()}, f: func(in []byte) bool {
			r := new(batched.BatchedTokenRequest)
			if !r.Unmarshal(in) {
				return false
			}
			_, e := bissuer.EvaluateBatch(r)
			return e == nil
		}},
		{name: "batched.Request.Unmarshal+EvaluateBatch (issuer serving type 1 only)", seeds: [][]byte{breq.Marshal()}, f: func(in []byte) bool {
			r := new(batched.BatchedTokenRequest)
			if !r.Unmarshal(in) {
				return false
			}
			_, e := bissuer1.EvaluateBatch(r)
			return e == nil
		}},
		{name: "batched.Request.Unmarshal+EvaluateBatch (issuer serving type 2 only)", seeds: [][]byte{breq.Marshal()}, f: func(in []byte) bool {
			r := new(batched.BatchedTokenRequest)
			if !r.Unmarshal(in) {
				return false
			}
			_, e := bissuer2.EvaluateBatch(r)
			return e == nil
		}},
		{name: "batched.Request.Unmarshal+EvaluateBatch (issuer with no keys)", seeds: [][]byte{breq.Marshal()}, f: func(in []byte) bool {
			r := new(batched.BatchedTokenRequest)
			if !r.Unmarshal(in) {
				return false
			}
			_, e := batched.NewBasicBatchedIssuer().EvaluateBatch(r)
			return e == nil
		}},
		{name: "batched.UnmarshalBatchedTokenResponses", seeds: [][]byte{bresp}, f: func(in []byte) bool { _, e := batched.UnmarshalBatchedTokenResponses(in); return e == nil }},
		{name: "util.UnmarshalTokenKey", seeds: [][]byte{tokenKeyPSS, tokenKeyLegacy}, f: func(in []byte) bool { _, e := util.UnmarshalTokenKey(in); return e == nil }},
		{name: "type1.FinalizeToken", seeds: [][]byte{resp1}, fe: "fe_fin1", f: func(in []byte) bool { _, e := st1.FinalizeToken(in); return e == nil }},
		{name: "type2.FinalizeToken", seeds: [][]byte{resp2}, f: func(in []byte) bool { _, e := st2.FinalizeToken(in); return e == nil }},
		{name: "type3.FinalizeToken", seeds: [][]byte{resp3}, fe: "fe_fin3", f: func(in []byte) bool { _, e := st3.FinalizeToken(in); return e == nil }},
		{name: "type5.FinalizeTokens", seeds: [][]byte{resp5}, fe: "fe_fin5", feArg: func(in []byte) [][]byte { return [][]byte{h.U64(3), in} },
			f: func(in []byte) bool { _, e := st5.FinalizeTokens(in); return e == nil }},
		{name: "attester.FinalizeIndex(blindedRequestKey)", seeds: [][]byte{brk3}, f: func(in []byte) bool {
			att := type3.NewRateLimitedAttester(newRecCache())
			att.VerifyRequest(*st3.Request(), blind3, st3.ClientKey(), nil)
			_, e := att.FinalizeIndex(st3.ClientKey(), blind3, in, []byte("anon"))
			return e == nil
		}},
		{name: "attester.FinalizeIndex(clientKey)", seeds: [][]byte{st3.ClientKey()}, f: func(in []byte) bool {
			att := type3.NewRateLimitedAttester(newRecCache())
			_, e := att.FinalizeIndex(in, blind3, brk3, []byte("anon"))
			return e == nil
		}},
		{name: "attester.FinalizeIndex(blind)", seeds: [][]byte{blind3}, f: func(in []byte) bool {
			att := type3.NewRateLimitedAttester(newRecCache())
			att.VerifyRequest(*st3.Request(), blind3, st3.ClientKey(), nil)
			_, e := att.FinalizeIndex(st3.ClientKey(), in, brk3, []byte("anon"))
			return e == nil
		}},
		{name: "ecdsa.VerifyASN1", seeds: [][]byte{asn1sig}, f: func(in []byte) bool { return ecdsa.VerifyASN1(&ecPriv.PublicKey, digest, in) }},
		{name: "ed25519.Verify(sig)", seeds: [][]byte{edSig}, f: func(in []byte) bool { return ed25519.Verify(edPub, edMsg, in) }},
		{name: "ed25519.Verify(publicKey)", seeds: [][]byte{edPub}, f: func(in []byte) bool {
			if len(in) != 32 { // documented API precondition: panics if len(publicKey) != PublicKeySize
				return false
			}
			return ed25519.Verify(ed25519.PublicKey(in), edMsg, edSig)
		}},
		{name: "quicwire.ConsumeVarintBytes", seeds: [][]byte{quicwire.AppendVarintBytes(nil, rnd(c, 70))}, f: func(in []byte) bool { _, n := quicwire.ConsumeVarintBytes(in); return n >= 0 }},
		{name: "quicwire.ConsumeUint8Bytes", seeds: [][]byte{quicwire.AppendUint8Bytes(nil, rnd(c, 70))}, f: func(in []byte) bool { _, n := quicwire.ConsumeUint8Bytes(in); return n >= 0 }},
	}
	// large well-formed lists through the decoders alone: memory must stay proportional to the message (a decoder that
	// copies "the rest of the input" per element is quadratic and only shows on thousands of elements)
	{
		var many []tokens.TokenRequestWithDetails
		for i := 0; i < 2000; i++ {
			if i%2 == 0 {
				many = append(many, st1.Request())
			} else {
				many = append(many, st2.Request())
			}
		}
		bigReq, _ := batched.BatchedClient{}.CreateTokenRequest(many)
		bigReqEnc := bigReq.Marshal()
		var respBody []byte
		for i := 0; i < 3000; i++ {
			switch i % 3 {
			case 0:
				respBody = append(respBody, 0)
			case 1:
				respBody = append(respBody, cat([]byte{1}, u16b(1), resp1)...)
			default:
				respBody = append(respBody, cat([]byte{1}, u16b(2), resp2)...)
			}
		}
		bigResps := cat(quicwire.AppendVarint(nil, uint64(len(respBody))), respBody)
		elems := rnd(c, 32*3000)
		big5 := cat(u16b(5), []byte{9}, quicwire.AppendVarint(nil, uint64(len(elems))), elems)
		origins := make([]string, 3000)
		for i := range origins {
			origins[i] = fmt.Sprintf("o%04d.example", i)
		}
		bigChal := tokens.TokenChallenge{TokenType: 2, IssuerName: "issuer.example", RedemptionNonce: rnd(c, 32), OriginInfo: origins}.Marshal()
		targets = append(targets,
			target{name: "batched.Request.Unmarshal (2000 elements)", seeds: [][]byte{bigReqEnc}, f: func(in []byte) bool { return new(batched.BatchedTokenRequest).Unmarshal(in) }},
			target{name: "type5.Request.Unmarshal (3000 elements)", seeds: [][]byte{big5}, f: func(in []byte) bool { return new(type5.BatchedPrivateTokenRequest).Unmarshal(in) }},
			target{name: "tokens.UnmarshalTokenChallenge (3000 origins)", seeds: [][]byte{bigChal}, f: func(in []byte) bool { _, e := tokens.UnmarshalTokenChallenge(in); return e == nil }},
		)
		targets = append(targets, target{name: "batched.UnmarshalBatchedTokenResponses (3000 entries)", seeds: [][]byte{bigResps}, f: func(in []byte) bool { _, e := batched.UnmarshalBatchedTokenResponses(in); return e == nil }})
	}
	// structured malformed inputs: consistent re-framing with every small field length
	extra := map[string][][]byte{}
	r3 := st3.Request()
	for n := 0; n <= 40; n++ { // type-3 request whose ciphertext has n bytes (framing intact, signature present)
		m := cat(u16b(3), r3.RequestKey, r3.NameKeyID, u16b(uint16(n)), r3.EncryptedTokenRequest[:n], r3.Signature)
		extra["type3.Issuer.Evaluate"] = append(extra["type3.Issuer.Evaluate"], m)
		extra["type3.Request.Unmarshal+attester.VerifyRequest"] = append(extra["type3.Request.Unmarshal+attester.VerifyRequest"], m)
	}
	for _, sl := range []int{0, 1, 47, 48, 49, 95, 97} { // signature of other lengths (trailing data / missing bytes)
		m := cat(u16b(3), r3.RequestKey, r3.NameKeyID, u16pfx(r3.EncryptedTokenRequest), rnd(c, sl))
		extra["type3.Issuer.Evaluate"] = append(extra["type3.Issuer.Evaluate"], m)
		extra["type3.Request.Unmarshal+attester.VerifyRequest"] = append(extra["type3.Request.Unmarshal+attester.VerifyRequest"], m)
	}
	for n := 0; n <= 6; n++ { // type-5 lists: n elements, declared length off by -1, 0, +1, +32
		body := rnd(c, 32*n)
		for _, d := range []int{-1, 0, 1, 31, 32} {
			if len(body)+d >= 0 {
				extra["type5.Request.Unmarshal+Evaluate"] = append(extra["type5.Request.Unmarshal+Evaluate"], cat(u16b(5), []byte{9}, quicwire.AppendVarint(nil, uint64(len(body)+d)), body))
				extra["type5.FinalizeTokens"] = append(extra["type5.FinalizeTokens"], cat(quicwire.AppendVarint(nil, uint64(len(body)+d)), body, rnd(c, 64)))
			}
		}
	}
	for _, hdr := range [][]byte{{0x40}, {0x80}, {0x80, 0, 0}, {0xc0}, {0xc0, 0, 0, 0}, {0xc0, 0, 0, 0, 0, 0, 0}, {0xff, 0xff, 0xff, 0xff}, {0xff, 0xff, 0xff, 0xff, 0xff, 0xff, 0xff}} {
		for _, name := range []string{"batched.Request.Unmarshal+EvaluateBatch", "batched.UnmarshalBatchedTokenResponses", "type5.FinalizeTokens", "quicwire.ConsumeVarintBytes"} {
			extra[name] = append(extra[name], hdr)
		}
		extra["type5.Request.Unmarshal+Evaluate"] = append(extra["type5.Request.Unmarshal+Evaluate"], cat(u16b(5), []byte{9}, hdr))
	}
	for n := 0; n <= 34; n++ { // inner request with padded origin of n bytes; all-zero and empty origins
		extra["type3.InnerTokenRequest.Unmarshal"] = append(extra["type3.InnerTokenRequest.Unmarshal"], cat([]byte{7}, rnd(c, 256), u16pfx(make([]byte, n))))
	}
	for n := 0; n <= 70; n++ { // authentic requests whose padded origin has n bytes: all non-zero, all zero, registered names
		nz := bytes.Repeat([]byte{'a'}, n)
		for _, po := range [][]byte{nz, make([]byte, n), cat([]byte(name32), make([]byte, n)), []byte(name64)[:minInt(n, 64)]} {
			extra["type3.Issuer.Evaluate(authentic envelope, inner plaintext)"] = append(extra["type3.Issuer.Evaluate(authentic envelope, inner plaintext)"],
				cat([]byte{is7.env.tokenKeyID[31]}, blinded0, u16pfx(po)))
		}
	}
	for _, nm := range []string{name32, name64, name32[:31], name64[:33], ""} { // honest client requests, names around the padding block size
		if stn, err := env.request(client3, challenge, rnd(c, 32), rnd(c, 48), nm); err == nil {
			extra["type3.Issuer.Evaluate"] = append(extra["type3.Issuer.Evaluate"], stn.Request().Marshal())
		}
	}
	// every varint length prefix re-encoded in each wider (non-minimal) form, with the body complete and cut short by 1..9 bytes
	reframe := func(name string, m []byte, off int) {
		v, n := quicwire.ConsumeVarint(m[off:])
		if n <= 0 {
			return
		}
		body := m[off+n:]
		for _, w := range []int{2, 4, 8} {
			if w < n {
				continue
			}
			pfx := make([]byte, w)
			for i, x := 0, v; i < w; i++ {
				pfx[w-1-i] = byte(x)
				x >>= 8
			}
			pfx[0] |= map[int]byte{2: 0x40, 4: 0x80, 8: 0xc0}[w]
			for cut := 0; cut <= 9 && cut <= len(body); cut++ {
				extra[name] = append(extra[name], cat(m[:off], pfx, body[:len(body)-cut]))
			}
			for _, tiny := range [][]byte{nil, {0}, {0, 1}, {1, 2, 3}} {
				small := append([]byte{}, pfx...)
				for i := 1; i < w; i++ {
					small[i] = 0
				}
				small[w-1] = byte(len(tiny) + 1 + w%3)
				extra[name] = append(extra[name], cat(m[:off], small, tiny))
			}
		}
	}
	reframe("batched.Request.Unmarshal+EvaluateBatch", breq.Marshal(), 0)
	reframe("batched.UnmarshalBatchedTokenResponses", bresp, 0)
	reframe("type5.Request.Unmarshal+Evaluate", st5.Request().Marshal(), 3)
	reframe("type5.FinalizeTokens", resp5, 0)
	reframe("quicwire.ConsumeVarintBytes", quicwire.AppendVarintBytes(nil, rnd(c, 70)), 0)
	// encapsulation keys with every registered (and the reserved / export-only 0xffff) KEM, KDF and AEAD identifier and a
	// public key of the right length for the KEM
	for kem, n := range map[uint16]int{0x0010: 65, 0x0011: 97, 0x0012: 133, 0x0020: 32, 0x0021: 56, 0x0000: 32, 0xffff: 32, 0x0013: 32} {
		pk := rnd(c, n)
		if n == 65 || n == 97 || n == 133 {
			pk[0] = 4
		}
		if kem == 0x0020 {
			pk = env.nameKey.Marshal()[3:35]
		}
		for _, kdf := range []uint16{0, 1, 2, 3, 4, 0xfffe, 0xffff} {
			for _, aead := range []uint16{0, 1, 2, 3, 4, 0xfffe, 0xffff} {
				extra["type3.UnmarshalEncapKey"] = append(extra["type3.UnmarshalEncapKey"], cat([]byte{7}, u16b(kem), pk, u16b(kdf), u16b(aead)))
			}
		}
	}
	// DER-consuming targets: every element of the seed's TLV tree emptied / shortened / extended with ALL enclosing
	// lengths re-encoded consistently (structurally valid DER with degenerate leaves)
	for _, t := range targets {
		if t.name == "util.UnmarshalTokenKey" || t.name == "ecdsa.VerifyASN1" {
			for _, s := range t.seeds {
				extra[t.name] = append(extra[t.name], derVariants(s)...)
			}
		}
	}
	for _, t := range targets {
		for _, s := range t.seeds {
			mutate(c, t, s)
		}
		for _, x := range extra[t.name] {
			measure(c, t, "structured-reframed", x)
		}
		nr := 60
		if c.Thorough() {
			nr = 1500
		}
		for i := 0; i < nr; i++ {
			measure(c, t, "random", rnd(c, c.Rng.Intn(2*len(t.seeds[0])+8)))
		}
		measure(c, t, "nil", nil)
		measure(c, t, "empty-non-nil", []byte{})
		big_ := make([]byte, 1<<16+300)
		measure(c, t, "64KiB-zeros", big_)
	}
	// ---- histories of refused type-3 requests: nothing is retained --------------------------------
	for _, t := range targets {
		if t.name == "type3.Issuer.Evaluate" || t.name == "type3.Request.Unmarshal+attester.VerifyRequest" {
			c03RetainedOverHistory(c, t.name, req3b, t.f)
		}
	}
	// ---- ecdsa.Verify with adversarial (r, s): zero, negative, N, N+1, multiples ------------------
	N := elliptic.P384().Params().N
	vals := []*big.Int{big.NewInt(0), big.NewInt(1), big.NewInt(-1), new(big.Int).Neg(N), N, new(big.Int).Add(N, big.NewInt(1)), new(big.Int).Sub(N, big.NewInt(1)),
		new(big.Int).Lsh(N, 1), new(big.Int).Lsh(big.NewInt(1), 384), new(big.Int).Lsh(big.NewInt(1), 4096)}
	for _, curve := range []elliptic.Curve{elliptic.P224(), elliptic.P256(), elliptic.P384(), elliptic.P521()} {
		priv, _ := ecdsa.GenerateKey(curve, crand.Reader)
		cn := curve.Params().N
		cvals := append([]*big.Int{cn, new(big.Int).Add(cn, big.NewInt(1)), new(big.Int).Sub(cn, big.NewInt(1)), new(big.Int).Lsh(cn, 1)}, vals...)
		for _, r := range cvals {
			for _, s := range cvals {
				journalCase("ecdsa.Verify", append(r.Bytes(), s.Bytes()...))
				pan, msg := h.Protect(func() { ecdsa.Verify(&priv.PublicKey, digest, r, s) })
				c.Count("ecdsa.Verify:adversarial-r-s", 1, curve.Params().Name+r.String()+"/"+s.String())
				if pan {
					c.Violation("panic on peer-supplied bytes", map[string]any{"function": "ecdsa.Verify", "curve": curve.Params().Name, "r": r.String(), "s": s.String(), "panic": msg})
				}
			}
		}
	}
	// ---- type-3 request with r or s on the boundary, through the decoder and both consumers -------
	for _, sv := range []*big.Int{N, big.NewInt(0), new(big.Int).Sub(N, big.NewInt(1))} {
		for half := 0; half < 2; half++ {
			m := append([]byte{}, req3b...)
			sv.FillBytes(m[len(m)-96+48*half : len(m)-48+48*half])
			for _, t := range targets {
				if t.name == "type3.Issuer.Evaluate" || t.name == "type3.Request.Unmarshal+attester.VerifyRequest" {
					measure(c, t, "signature-scalar-boundary", m)
				}
			}
		}
	}
}

type wrap1 struct{ *type1.BasicPrivateIssuer }

func (w wrap1) Evaluate(req tokens.TokenRequest) ([]byte, error) {
	r, ok := req.(*type1.BasicPrivateTokenRequest)
	if !ok {
		return nil, fmt.Errorf("wrong request type")
	}
	return w.BasicPrivateIssuer.Evaluate(r)
}

type wrap2 struct{ *type2.BasicPublicIssuer }

func (w wrap2) Evaluate(req tokens.TokenRequest) ([]byte, error) {
	r, ok := req.(*type2.BasicPublicTokenRequest)
	if !ok {
		return nil, fmt.Errorf("wrong request type")
	}
	return w.BasicPublicIssuer.Evaluate(r)
}

// ---- structure-aware DER mutation ---------------------------------------------------------------------------------------

type derNode struct {
	tag      byte
	content  []byte     // for leaves
	children []*derNode // for constructed elements (and BIT STRINGs that wrap DER: first content byte kept in pre)
	pre      []byte
}

func derParse(b []byte, depth int) ([]*derNode, bool) {
	var out []*derNode
	for len(b) > 0 {
		if len(b) < 2 {
			return nil, false
		}
		tag, l, hdr := b[0], int(b[1]), 2
		if l&0x80 != 0 {
			n := l & 0x7f
			if n == 0 || n > 3 || len(b) < 2+n {
				return nil, false
			}
			l = 0
			for i := 0; i < n; i++ {
				l = l<<8 | int(b[2+i])
			}
			hdr = 2 + n
		}
		if len(b) < hdr+l {
			return nil, false
		}
		body := b[hdr : hdr+l]
		nd := &derNode{tag: tag, content: body}
		if depth < 6 {
			if tag&0x20 != 0 {
				if ch, ok := derParse(body, depth+1); ok {
					nd.children, nd.content = ch, nil
				}
			} else if tag == 3 && len(body) > 1 {
				if ch, ok := derParse(body[1:], depth+1); ok && len(ch) > 0 {
					nd.children, nd.content, nd.pre = ch, nil, body[:1]
				}
			}
		}
		out = append(out, nd)
		b = b[hdr+l:]
	}
	return out, true
}

func derEncode(ns []*derNode) []byte {
	var out []byte
	for _, n := range ns {
		body := n.content
		if n.children != nil {
			body = cat(n.pre, derEncode(n.children))
		}
		out = append(out, derTLV(n.tag, body)...)
	}
	return out
}

// derVariants: for every node of the tree, variants with that node replaced (empty, one byte, last byte dropped,
// one byte added, removed altogether, duplicated), all ancestors re-encoded.
func derVariants(seed []byte) [][]byte {
	root, ok := derParse(seed, 0)
	if !ok {
		return nil
	}
	var out [][]byte
	var walk func(ns []*derNode)
	walk = func(ns []*derNode) {
		for i, n := range ns {
			saveC, saveCh, savePre := n.content, n.children, n.pre
			full := n.content
			if n.children != nil {
				full = cat(n.pre, derEncode(n.children))
			}
			for _, repl := range [][]byte{nil, {0}, {0x80}, {0xff}, full[:len(full)/2], func() []byte {
				if len(full) > 0 {
					return full[:len(full)-1]
				}
				return nil
			}(), cat(full, []byte{0}), cat([]byte{0}, full)} {
				n.content, n.children, n.pre = append([]byte{}, repl...), nil, nil
				out = append(out, derEncode(root))
			}
			n.content, n.children, n.pre = saveC, saveCh, savePre
			// remove / duplicate the node among its siblings
			removed := append(append([]*derNode{}, ns[:i]...), ns[i+1:]...)
			dup := append(append(append([]*derNode{}, ns[:i+1]...), n), ns[i+1:]...)
			for _, alt := range [][]*derNode{removed, dup} {
				copyNs := append([]*derNode{}, ns...)
				// splice alt in place of ns at the parent: rebuild by temporarily swapping slices through a closure
				out = append(out, derEncodeWith(root, ns, alt))
				_ = copyNs
			}
			if n.children != nil {
				walk(n.children)
			}
		}
	}
	walk(root)
	return out
}

// derEncodeWith encodes the tree with the sibling list `from` replaced by `to` wherever it occurs.
func derEncodeWith(ns []*derNode, from, to []*derNode) []byte {
	if len(ns) == len(from) && (len(ns) == 0 || &ns[0] == &from[0]) {
		ns = to
	}
	var out []byte
	for _, n := range ns {
		body := n.content
		if n.children != nil {
			body = cat(n.pre, derEncodeWith(n.children, from, to))
		}
		out = append(out, derTLV(n.tag, body)...)
	}
	return out
}
