// Package deep computes a hash of everything reachable from a value: through pointers, slices (whole capacity),
// arrays, maps (order-independent), interfaces, strings and unexported fields. Two hashes taken before and after
// an operation differ iff the operation changed some reachable word (or the shape of the graph).
package deep

import (
	"crypto/sha256"
	"encoding/binary"
	"fmt"
	"hash"
	"reflect"
	"sort"
	"strings"
	"unsafe"
)

type walker struct {
	h    hash.Hash
	seen map[[2]uintptr]bool
	path []string
	log  map[string]string // path -> hash of the subtree (first levels only), to name what changed
}

// Snapshot returns the overall hash and a map from field paths (two levels) to subtree hashes.
func Snapshot(root any) (string, map[string]string) {
	w := &walker{h: sha256.New(), seen: map[[2]uintptr]bool{}, log: map[string]string{}}
	v := reflect.ValueOf(root)
	w.walk(v, 0)
	return fmt.Sprintf("%x", w.h.Sum(nil)), w.log
}

// Diff names the first-level paths whose subtree hashes differ.
func Diff(a, b map[string]string) []string {
	var out []string
	for k, v := range a {
		if b[k] != v {
			out = append(out, k)
		}
	}
	for k := range b {
		if _, ok := a[k]; !ok {
			out = append(out, k)
		}
	}
	sort.Strings(out)
	return out
}

func (w *walker) u64(x uint64) {
	var b [8]byte
	binary.LittleEndian.PutUint64(b[:], x)
	w.h.Write(b[:])
}

func skipType(t reflect.Type) bool {
	p := t.PkgPath()
	return p == "sync" || p == "sync/atomic" || strings.HasPrefix(p, "internal/") && strings.Contains(p, "race")
}

func (w *walker) walk(v reflect.Value, depth int) {
	if !v.IsValid() {
		w.u64(0)
		return
	}
	t := v.Type()
	if skipType(t) {
		return
	}
	if v.CanAddr() && !v.CanInterface() {
		v = reflect.NewAt(t, unsafe.Pointer(v.UnsafeAddr())).Elem()
	}
	switch v.Kind() {
	case reflect.Bool:
		if v.Bool() {
			w.u64(1)
		} else {
			w.u64(0)
		}
	case reflect.Int, reflect.Int8, reflect.Int16, reflect.Int32, reflect.Int64:
		w.u64(uint64(v.Int()))
	case reflect.Uint, reflect.Uint8, reflect.Uint16, reflect.Uint32, reflect.Uint64, reflect.Uintptr:
		w.u64(v.Uint())
	case reflect.Float32, reflect.Float64:
		w.u64(uint64(v.Float()))
	case reflect.String:
		w.u64(uint64(v.Len()))
		w.h.Write([]byte(v.String()))
	case reflect.Ptr:
		if v.IsNil() {
			w.u64(0)
			return
		}
		key := [2]uintptr{v.Pointer(), uintptr(unsafe.Pointer(reflect.ValueOf(t).Pointer()))}
		if w.seen[key] {
			w.u64(2)
			return
		}
		w.seen[key] = true
		w.u64(1)
		w.walk(v.Elem(), depth)
	case reflect.Interface:
		if v.IsNil() {
			w.u64(0)
			return
		}
		e := v.Elem()
		w.h.Write([]byte(e.Type().String()))
		if e.Kind() == reflect.Ptr || e.Kind() == reflect.Map || e.Kind() == reflect.Slice {
			w.walk(e, depth)
		} else {
			// a non-pointer value boxed in an interface is not addressable: copy it into addressable storage
			c := reflect.New(e.Type()).Elem()
			c.Set(e)
			w.walk(c, depth)
		}
	case reflect.Slice:
		if v.IsNil() {
			w.u64(0)
			return
		}
		w.u64(uint64(v.Len()))
		full := v.Slice3(0, v.Cap(), v.Cap()) // spare capacity is memory of the object too
		if t.Elem().Kind() == reflect.Uint8 {
			w.h.Write(full.Bytes())
			return
		}
		for i := 0; i < full.Len(); i++ {
			w.walk(full.Index(i), depth+1)
		}
	case reflect.Array:
		for i := 0; i < v.Len(); i++ {
			w.walk(v.Index(i), depth+1)
		}
	case reflect.Map:
		if v.IsNil() {
			w.u64(0)
			return
		}
		type kv struct{ k, v string }
		var items []kv
		it := v.MapRange()
		for it.Next() {
			kw := &walker{h: sha256.New(), seen: w.seen, log: map[string]string{}}
			kc := reflect.New(it.Key().Type()).Elem()
			kc.Set(it.Key())
			kw.walk(kc, depth+1)
			vw := &walker{h: sha256.New(), seen: w.seen, log: map[string]string{}}
			vc := reflect.New(it.Value().Type()).Elem()
			vc.Set(it.Value())
			vw.walk(vc, depth+1)
			items = append(items, kv{string(kw.h.Sum(nil)), string(vw.h.Sum(nil))})
		}
		sort.Slice(items, func(i, j int) bool { return items[i].k < items[j].k })
		w.u64(uint64(len(items)))
		for _, x := range items {
			w.h.Write([]byte(x.k))
			w.h.Write([]byte(x.v))
		}
	case reflect.Struct:
		for i := 0; i < v.NumField(); i++ {
			f := v.Field(i)
			if depth < 2 {
				sub := &walker{h: sha256.New(), seen: map[[2]uintptr]bool{}, log: map[string]string{}}
				sub.walk(f, depth+1)
				name := strings.Join(append(append([]string{}, w.path...), t.Name()+"."+t.Field(i).Name), "/")
				w.log[name] = fmt.Sprintf("%x", sub.h.Sum(nil))
				for k, x := range sub.log {
					w.log[name+"/"+k] = x
				}
			}
			w.walk(f, depth+1)
		}
	case reflect.Func, reflect.Chan, reflect.UnsafePointer:
		// not data
	default:
		w.h.Write([]byte(v.Kind().String()))
	}
}
