#!/bin/bash
# Extract the models and build the OCaml runner.  Requires coq/ to be built.
set -e
cd "$(dirname "$0")"
mkdir -p gen ../bin
( cd gen && coqc -Q ../../coq PatVerif ../../coq/Extract/Extract.v >/dev/null )
cp runner.ml gen/runner.ml
( cd gen && ocamlfind ocamlopt -O3 -package unix -linkpkg -w -a model.mli model.ml runner.ml -o ../../bin/runner 2>/dev/null \
  || ocamlfind ocamlopt -package unix -linkpkg -w -a model.mli model.ml runner.ml -o ../../bin/runner )
