package main

import (
	stdecdsa "crypto/ecdsa"
	"crypto/elliptic"
	crand "crypto/rand"
	"crypto/sha512"
	"encoding/hex"
	"fmt"
	"math/big"
	"strings"
	"sync"

	"github.com/cloudflare/pat-go/tokens/type3"
	"verif/harness/internal/h"
	"verif/harness/internal/ref"
)

func init() { props["C06"] = runC06 }

// recording cache
type recCache struct {
	mu   sync.Mutex
	m    map[string]*type3.ClientState
	puts int
	gets int
}

func newRecCache() *recCache { return &recCache{m: map[string]*type3.ClientState{}} }
func (c *recCache) Get(id string) (*type3.ClientState, bool) {
	c.mu.Lock()
	defer c.mu.Unlock()
	c.gets++
	s, ok := c.m[id]
	return s, ok
}
func (c *recCache) Put(id string, s *type3.ClientState) {
	c.mu.Lock()
	defer c.mu.Unlock()
	c.puts++
	c.m[id] = s
}

func flagB(b bool) []byte {
	if b {
		return []byte{1}
	}
	return []byte{0}
}

// signedMessage as the rate-limited issuance draft defines it (built independently of pat-go)
func signedMessage(key, nkid, enc []byte) []byte {
	return cat([]byte{0, 3}, key, nkid, u16b(uint16(len(enc))), enc)
}

// oracleSig: standard-library ECDSA verification of sig = r||s over SHA-384(msg) under the compressed key.
func oracleSig(key, msg, sig []byte) bool {
	x, y := elliptic.UnmarshalCompressed(elliptic.P384(), key)
	if x == nil || len(sig) < 48 {
		return false
	}
	d := sha512.Sum384(msg)
	r, s := new(big.Int).SetBytes(sig[:48]), new(big.Int).SetBytes(sig[48:])
	ok := false
	h.Protect(func() { ok = stdecdsa.Verify(&stdecdsa.PublicKey{Curve: elliptic.P384(), X: x, Y: y}, d[:], r, s) })
	return ok
}

type vrCase struct {
	key, nkid, enc, sig, blind, clientKey []byte
	preRegistered                         bool
	// staleFrom: the request OBJECT first held these (honest) values and was marshalled (so that it carries a cached
	// encoding), and only then were its fields set to this case's values
	staleFrom *vrCase
}

// c06Log records every case run on a fresh attester, for the shared-attester history leg
var c06Log []struct {
	cat string
	v   vrCase
}

func doVerifyRequest(c *h.Ctx, cat_ string, v vrCase) {
	c06Log = append(c06Log, struct {
		cat string
		v   vrCase
	}{cat_, v})
	cache := newRecCache()
	att := type3.NewRateLimitedAttester(cache)
	if v.preRegistered {
		cache.m[hex.EncodeToString(v.clientKey)] = &type3.ClientState{}
	}
	doVerifyRequestOn(c, cat_, v, att, cache)
}

// doVerifyRequestOn runs one request on the given (possibly long-lived) attester: the verdict on a request must not
// depend on what the attester was asked before, so the same oracles and the same model case apply
func doVerifyRequestOn(c *h.Ctx, cat_ string, v vrCase, att *type3.RateLimitedAttester, cache *recCache) {
	_, v.preRegistered = cache.m[hex.EncodeToString(v.clientKey)]
	cache.puts = 0
	req := type3.RateLimitedTokenRequest{RequestKey: v.key, NameKeyID: v.nkid, EncryptedTokenRequest: v.enc, Signature: v.sig}
	if v.staleFrom != nil {
		o := v.staleFrom
		req = type3.RateLimitedTokenRequest{RequestKey: o.key, NameKeyID: o.nkid, EncryptedTokenRequest: o.enc, Signature: o.sig}
		req.Marshal()
		req.RequestKey, req.NameKeyID, req.EncryptedTokenRequest, req.Signature = v.key, v.nkid, v.enc, v.sig
		cat_ += ":object-marshalled-before-the-change"
	}
	if len(v.enc) > 65535 {
		// a hand-built request whose ciphertext cannot be 16-bit length-prefixed has no wire form and no signed message:
		// it can only be refused (the unchanged code panics while building the signed message — tolerated here, such a
		// request cannot come from a peer); what must never happen is acceptance or a state change
		var err error
		pan, _ := h.Protect(func() { err = att.VerifyRequest(req, v.blind, v.clientKey, []byte("anon")) })
		_, registeredAfter := cache.m[hex.EncodeToString(v.clientKey)]
		c.Count(cat_+":no-wire-form", 1, fmt.Sprint(len(v.enc)))
		if (!pan && err == nil) || cache.puts > 0 || (registeredAfter && !v.preRegistered) {
			c.Violation("attester accepts (or registers state for) a request that is not authentic: ciphertext too long to have a signed encoding", map[string]any{"category": cat_, "enc_len": len(v.enc), "panicked": pan})
		}
		return
	}
	var err error
	pan, msg := h.Protect(func() { err = att.VerifyRequest(req, v.blind, v.clientKey, []byte("anon")) })
	// oracles, independent of pat-go
	oParseKey := ref.ParsesP384(v.key)
	sm := signedMessage(v.key, v.nkid, v.enc)
	oSig := oParseKey && oracleSig(v.key, sm, v.sig)
	oParseClient := ref.ParsesP384(v.clientKey)
	oBlinded := ref.BlindCompressedP384(v.clientKey, v.blind, ref.CtxClientBlind)
	_, registeredAfter := cache.m[hex.EncodeToString(v.clientKey)]
	st := h.StOK
	if pan {
		st = h.StPanic
	} else if err != nil {
		st = h.StNone
	}
	c.Case(cat_, true, "verify_request",
		[][]byte{v.key, v.nkid, v.enc, v.sig, v.blind, v.clientKey, flagB(oParseKey), flagB(oSig), flagB(oParseClient), oBlinded, flagB(v.preRegistered)},
		[][]byte{st, flagB(cache.puts > 0), flagB(registeredAfter), sm})
	// the property predicate on the implementation's own behaviour
	authentic := oSig && oParseClient && oBlinded != nil && string(oBlinded) == string(v.key)
	det := map[string]any{"category": cat_, "key": h.Hex(v.key), "client_key": h.Hex(v.clientKey), "blind": h.Hex(v.blind), "sig": h.Hex(v.sig), "nkid": h.Hex(v.nkid), "enc_len": len(v.enc), "panic": msg}
	if pan {
		c.Violation("VerifyRequest panics", det)
		return
	}
	if err == nil && !authentic {
		c.Violation("attester accepts a request that is not authentic (signature / blinded-key binding)", det)
	}
	if err != nil && authentic {
		c.Violation("attester rejects an authentic request", det)
	}
	if err != nil && (cache.puts > 0 || (registeredAfter && !v.preRegistered)) {
		c.Violation("a rejected request creates or alters client state in the cache", det)
	}
	if err == nil && !registeredAfter {
		c.Violation("an accepted request leaves no client state", det)
	}
	if v.preRegistered && cache.puts > 0 {
		c.Violation("client state replaced for an already registered client", det)
	}
}

func flipBit(b []byte, i int) []byte {
	o := append([]byte{}, b...)
	o[i/8] ^= 1 << (uint(i) % 8)
	return o
}

func runC06(c *h.Ctx) {
	c06NearMissRequestKeys(c)
	nHonest := 2
	if c.Thorough() {
		nHonest = 6
	}
	env := newT3(c, 0, rnd(c, 32), map[string][]byte{"origin.example": rnd(c, 48)})
	other := type3.NewRateLimitedClientFromSecret(rnd(c, 48))
	for hi := 0; hi < nHonest; hi++ {
		secret := rnd(c, 48)
		if hi == 1 {
			secret[0] = 0 // leading-zero secret
		}
		client := type3.NewRateLimitedClientFromSecret(secret)
		blind := rnd(c, 48)
		st, err := env.request(client, rnd(c, 33), rnd(c, 32), blind, "origin.example")
		if err != nil {
			c.Violation("honest request creation failed", map[string]any{"err": err.Error()})
			continue
		}
		r := st.Request()
		base := vrCase{key: r.RequestKey, nkid: r.NameKeyID, enc: r.EncryptedTokenRequest, sig: r.Signature, blind: blind, clientKey: st.ClientKey()}
		doVerifyRequest(c, "honest", base)
		pre := base
		pre.preRegistered = true
		doVerifyRequest(c, "honest:already-registered", pre)
		// one long-lived attester; the accepted request's own buffers edited in place between calls, then restored
		{
			cache := newRecCache()
			att := type3.NewRateLimitedAttester(cache)
			doVerifyRequestOn(c, "in-place:accepted-first", base, att, cache)
			for _, f := range [][]byte{base.sig, base.enc, base.key, base.nkid} {
				for _, pos := range []int{len(f) - 1, len(f) / 2} {
					f[pos] ^= 0x01
					doVerifyRequestOn(c, "in-place:edited-after-accept", base, att, cache)
					f[pos] ^= 0x01
					doVerifyRequestOn(c, "in-place:restored", base, att, cache)
				}
			}
		}
		// every single-bit flip of each field
		stride := 1
		if !c.Thorough() && hi > 0 {
			stride = 5
		}
		for i := 0; i < 8*len(base.key); i += stride {
			v := base
			v.key = flipBit(base.key, i)
			doVerifyRequest(c, "bitflip:request-key", v)
		}
		for i := 0; i < 8*len(base.nkid); i += stride {
			v := base
			v.nkid = flipBit(base.nkid, i)
			doVerifyRequest(c, "bitflip:name-key-id", v)
		}
		encStride := stride * 7
		if c.Thorough() && hi == 0 {
			encStride = 1
		}
		for i := 0; i < 8*len(base.enc); i += encStride {
			v := base
			v.enc = flipBit(base.enc, i)
			doVerifyRequest(c, "bitflip:ciphertext", v)
		}
		for i := 0; i < 8*len(base.sig); i += stride {
			v := base
			v.sig = flipBit(base.sig, i)
			doVerifyRequest(c, "bitflip:signature", v)
		}
		for i := 0; i < 8*len(base.clientKey); i += stride {
			v := base
			v.clientKey = flipBit(base.clientKey, i)
			doVerifyRequest(c, "bitflip:client-key", v)
		}
		for i := 0; i < 8*len(base.blind); i += stride {
			v := base
			v.blind = flipBit(base.blind, i)
			doVerifyRequest(c, "bitflip:blind", v)
		}
		// the same changes made to a request OBJECT that was marshalled while it still held the honest values
		// (a cached encoding must never stand in for the current field contents)
		hb := base
		stale := base
		stale.staleFrom = &hb
		doVerifyRequest(c, "honest", stale)
		for i := 0; i < 8*len(base.key); i += 3 * stride {
			v := stale
			v.key = flipBit(base.key, i)
			doVerifyRequest(c, "bitflip:request-key", v)
		}
		for i := 0; i < 8*len(base.nkid); i += 3 * stride {
			v := stale
			v.nkid = flipBit(base.nkid, i)
			doVerifyRequest(c, "bitflip:name-key-id", v)
		}
		for i := 0; i < 8*len(base.enc); i += 3 * encStride {
			v := stale
			v.enc = flipBit(base.enc, i)
			doVerifyRequest(c, "bitflip:ciphertext", v)
		}
		for i := 0; i < 8*len(base.sig); i += 3 * stride {
			v := stale
			v.sig = flipBit(base.sig, i)
			doVerifyRequest(c, "bitflip:signature", v)
		}
		// signature by another key / over other contents
		blind2 := rnd(c, 48)
		st2, _ := env.request(other, rnd(c, 33), rnd(c, 32), blind2, "origin.example")
		r2 := st2.Request()
		v := base
		v.sig = r2.Signature
		doVerifyRequest(c, "foreign:signature-of-other-request", v)
		v = base
		v.key = r2.RequestKey
		doVerifyRequest(c, "foreign:request-key-of-other-client", v)
		v = vrCase{key: r2.RequestKey, nkid: r2.NameKeyID, enc: r2.EncryptedTokenRequest, sig: r2.Signature, blind: blind, clientKey: st.ClientKey()}
		doVerifyRequest(c, "foreign:valid-request-under-other-client-key", v)
		v.blind = blind2
		doVerifyRequest(c, "foreign:valid-request-other-blind-and-client-key", v)
		v = base
		v.enc = r2.EncryptedTokenRequest
		doVerifyRequest(c, "foreign:ciphertext-swapped", v)
		v = base
		v.blind = blind2
		doVerifyRequest(c, "wrong-blind", v)
		// the negated client key (other compression sign) and the negated request key
		v = base
		v.clientKey = append([]byte{base.clientKey[0] ^ 1}, base.clientKey[1:]...)
		doVerifyRequest(c, "negated:client-key", v)
		v = base
		v.key = append([]byte{base.key[0] ^ 1}, base.key[1:]...)
		doVerifyRequest(c, "negated:request-key", v)
		// malformed keys
		for _, bad := range [][]byte{nil, {2}, base.key[:48], cat(base.key, []byte{0}), cat([]byte{4}, base.key[1:]), cat([]byte{0}, base.key[1:]), cat([]byte{2}, make([]byte, 48)), cat([]byte{2}, bytesFF(48))} {
			v = base
			v.key = bad
			doVerifyRequest(c, "malformed:request-key", v)
			v = base
			v.clientKey = bad
			doVerifyRequest(c, "malformed:client-key", v)
		}
		// signature shapes: short, missing, r or s zero, s = N, s = N + s
		N := elliptic.P384().Params().N
		sInt := new(big.Int).SetBytes(base.sig[48:])
		mk := func(r, s *big.Int) []byte {
			o := make([]byte, 96)
			r.FillBytes(o[:48])
			s.FillBytes(o[48:])
			return o
		}
		rInt := new(big.Int).SetBytes(base.sig[:48])
		sigs := [][]byte{nil, base.sig[:47], base.sig[:48], base.sig[:95], cat(base.sig, []byte{0}), mk(big.NewInt(0), sInt), mk(rInt, big.NewInt(0)), mk(rInt, N), mk(N, sInt),
			mk(rInt, new(big.Int).Sub(N, sInt)), mk(rInt, new(big.Int).Sub(N, big.NewInt(1))), make([]byte, 96), bytesFF(96)}
		if sum := new(big.Int).Add(N, sInt); sum.BitLen() <= 384 {
			sigs = append(sigs, mk(rInt, sum))
		}
		for _, sg := range sigs {
			v = base
			v.sig = sg
			doVerifyRequest(c, "signature-shapes", v)
		}
		for _, b := range [][]byte{nil, {0}, make([]byte, 48), bytesFF(48), cat([]byte{0}, blind), blind[:47]} {
			v = base
			v.blind = b
			doVerifyRequest(c, "blind-shapes", v)
		}
		// blinds congruent to the right one modulo the group order (b + N, b + 2N, b + 255N): other byte strings, hence
		// other blinding factors — the request key is NOT the client key blinded with them
		for _, k := range []int64{1, 2, 255} {
			v = base
			v.blind = new(big.Int).Add(new(big.Int).SetBytes(blind), new(big.Int).Mul(big.NewInt(k), N)).Bytes()
			doVerifyRequest(c, "blind-shapes:congruent-mod-order", v)
		}
		// ciphertext lengths at and beyond the 16-bit length prefix (65535 is the longest request with a wire form)
		for _, n := range []int{65535, 65536, 65537, 70000, 131072} {
			v = base
			v.enc = rnd(c, n)
			doVerifyRequest(c, "ciphertext-length-limits", v)
			v.sig = rnd(c, 96)
			v.key = r2.RequestKey
			doVerifyRequest(c, "ciphertext-length-limits", v)
			if n > 65535 {
				// ... and signatures, by the correctly blinded key, over what a careless encoder would produce for such a
				// request: nothing at all, or the message with the length prefix wrapped modulo 2^16
				m := c.Model("ecdsa_blind_exp", []byte{3}, secret, blind, ctxClientBlind)
				bsk := &stdecdsa.PrivateKey{D: new(big.Int).SetBytes(m[1])}
				bsk.Curve = elliptic.P384()
				bsk.X, bsk.Y = elliptic.P384().ScalarBaseMult(m[1])
				v = base
				v.enc = rnd(c, n)
				wrapped := cat(u16b(3), v.key, v.nkid, u16b(uint16(n)), v.enc)
				for _, msg := range [][]byte{nil, wrapped, cat(u16b(3), v.key, v.nkid)} {
					d := sha512.Sum384(msg)
					rr, ss, err := stdecdsa.Sign(crand.Reader, bsk, d[:])
					if err != nil {
						continue
					}
					sg := make([]byte, 96)
					rr.FillBytes(sg[:48])
					ss.FillBytes(sg[48:])
					v.sig = sg
					doVerifyRequest(c, "ciphertext-length-limits:signed-over-a-degenerate-message", v)
				}
			}
		}
		// history leg: the same requests put to ONE long-lived attester, each refused or malformed request followed
		// by an honest one — a verdict must depend on the request alone, never on what was asked before
		log := c06Log
		c06Log = nil
		cache := newRecCache()
		att := type3.NewRateLimitedAttester(cache)
		nb := 0
		for _, e := range log {
			if e.v.staleFrom != nil {
				continue
			}
			follow := true
			if strings.HasPrefix(e.cat, "bitflip:") {
				nb++
				if nb%4 != 0 {
					continue
				}
				follow = nb%16 == 0
			}
			doVerifyRequestOn(c, "history:"+e.cat, e.v, att, cache)
			if follow {
				doVerifyRequestOn(c, "history:honest-after:"+e.cat, base, att, cache)
			}
		}
		c06Log = nil
	}
}

func bytesFF(n int) []byte {
	b := make([]byte, n)
	for i := range b {
		b[i] = 0xff
	}
	return b
}
