From PatVerif Require Import Model.TokenKey Proofs.DerP.
From Coq Require Import ZifyN ZifyNat ZifyBool.
Open Scope N_scope.

Definition small_modulus (n : N) : Prop := N.of_nat (length (be_min n)) < 2147483648.

Lemma alg_pss_len : length alg_pss = 63%nat. Proof. vm_compute. reflexivity. Qed.
Lemma alg_rsa_len : length alg_rsa = 15%nat. Proof. vm_compute. reflexivity. Qed.

(** the AlgorithmIdentifier bytes are exactly the DER of RFC 9578 §8.2.2 / draft-ietf-privacypass-protocol:
    30 3d 06 09 2a864886f70d01010a 30 30 a0 0d 30 0b 06 09 608648016503040202
    a1 1a 30 18 06 09 2a864886f70d010108 30 0b 06 09 608648016503040202 a2 03 02 01 30 *)
Definition alg_pss_rfc : list byte := bytes_of
  [48; 61; 6; 9; 42; 134; 72; 134; 247; 13; 1; 1; 10; 48; 48; 160; 13; 48; 11; 6; 9; 96; 134; 72; 1; 101; 3; 4; 2; 2;
   161; 26; 48; 24; 6; 9; 42; 134; 72; 134; 247; 13; 1; 1; 8; 48; 11; 6; 9; 96; 134; 72; 1; 101; 3; 4; 2; 2;
   162; 3; 2; 1; 48].
Lemma alg_pss_literal : alg_pss = alg_pss_rfc. Proof. vm_compute. reflexivity. Qed.
Definition alg_rsa_rfc : list byte := bytes_of [48; 13; 6; 9; 42; 134; 72; 134; 247; 13; 1; 1; 1; 5; 0].
Lemma alg_rsa_literal : alg_rsa = alg_rsa_rfc. Proof. vm_compute. reflexivity. Qed.

Lemma alg_split a : (a = alg_pss \/ a = alg_rsa) -> exists c, a = tlv x30 c /\ (length c <= 61)%nat.
Proof.
  intros [->| ->]; eexists; (split; [unfold alg_pss, alg_rsa, der_seq; reflexivity|vm_compute; lia]).
Qed.

Lemma der_int_len v : N.of_nat (length (be_min v)) < 2147483648 ->
  (length (der_int v) <= length (be_min v) + 7)%nat.
Proof.
  intro H. destruct (int_content_spec v) as (_ & _ & L & _). unfold der_int.
  pose proof (tlv_length x02 (int_content v) ltac:(lia)). lia.
Qed.

Lemma be_min_len63 e : e < 2 ^ 63 -> (length (be_min e) <= 8)%nat.
Proof. intro H. apply be_min_len. change (256 ^ N.of_nat 8) with (2 ^ 64). lia. Qed.

Lemma unmarshal_marshal_gen a n e :
  (a = alg_pss \/ a = alg_rsa) -> small_modulus n -> e < 2 ^ 63 ->
  unmarshal_token_key (der_seq (a ++ der_bitstring (rsa_public_key n e))) = Some (Z.of_N n, Z.of_N e).
Proof.
  intros Ha Hn He. unfold small_modulus in Hn.
  destruct (alg_split a Ha) as (ac & -> & Hac).
  pose proof (be_min_len63 e He) as Le.
  pose proof (der_int_len n Hn) as Ln. pose proof (der_int_len e ltac:(lia)) as Le2.
  set (ic := der_int n ++ der_int e).
  assert (Lic : (length ic <= length (be_min n) + 22)%nat) by (unfold ic; rewrite app_length; lia).
  assert (Lrpk : (length (rsa_public_key n e) <= length (be_min n) + 28)%nat /\ rsa_public_key n e <> []).
  { unfold rsa_public_key, der_seq. fold ic. pose proof (tlv_length x30 ic ltac:(lia)). split; [lia|]. discriminate. }
  destruct Lrpk as (Lrpk & Nrpk).
  assert (Lbs : (length (der_bitstring (rsa_public_key n e)) <= length (be_min n) + 35)%nat).
  { unfold der_bitstring. pose proof (tlv_length x03 (x00 :: rsa_public_key n e) ltac:(cbn [length]; lia)).
    cbn [length] in *. lia. }
  pose proof (tlv_length x30 ac ltac:(lia)) as Lalg.
  unfold unmarshal_token_key, der_seq.
  rewrite <- (app_nil_r (tlv x30 (tlv x30 ac ++ _))).
  rewrite read_asn1_tlv; [|cbn; lia|rewrite app_length; lia].
  rewrite read_asn1_tlv; [|cbn; lia|lia].
  rewrite <- (app_nil_r (der_bitstring _)).
  rewrite read_bitstring_der; [|exact Nrpk|lia].
  unfold rsa_public_key, der_seq. fold ic.
  rewrite <- (app_nil_r (tlv x30 ic)).
  rewrite read_asn1_tlv; [|cbn; lia|lia].
  unfold ic. rewrite read_bigint_der by lia.
  rewrite <- (app_nil_r (der_int e)). rewrite read_int64_der by exact He.
  reflexivity.
Qed.

Lemma pss_roundtrip_l n e : small_modulus n -> e < 2 ^ 63 ->
  unmarshal_token_key (marshal_pss n e) = Some (Z.of_N n, Z.of_N e).
Proof. intros. apply unmarshal_marshal_gen; auto. Qed.

Lemma legacy_roundtrip_l n e : small_modulus n -> e < 2 ^ 63 ->
  unmarshal_token_key (marshal_legacy n e) = Some (Z.of_N n, Z.of_N e).
Proof. intros. apply unmarshal_marshal_gen; auto. Qed.

Lemma pss_exact_l n e :
  marshal_pss n e = tlv x30 (alg_pss_rfc ++ tlv x03 (x00 :: tlv x30 (der_int n ++ der_int e))).
Proof. unfold marshal_pss. now rewrite alg_pss_literal. Qed.

Lemma legacy_exact_l n e :
  marshal_legacy n e = tlv x30 (alg_rsa_rfc ++ tlv x03 (x00 :: tlv x30 (der_int n ++ der_int e))).
Proof. unfold marshal_legacy. now rewrite alg_rsa_literal. Qed.

(** the two forms never coincide and both determine (n, e): the encodings are injective *)
Lemma marshal_inj_l n e n' e' : small_modulus n -> small_modulus n' -> e < 2 ^ 63 -> e' < 2 ^ 63 ->
  marshal_pss n e = marshal_pss n' e' -> n = n' /\ e = e'.
Proof.
  intros Hn Hn' He He' E.
  pose proof (pss_roundtrip_l n e Hn He) as R. rewrite E, pss_roundtrip_l in R by assumption.
  inversion R. split; lia.
Qed.

(** minimality of the INTEGER contents: the modulus is encoded with a leading zero exactly when its top bit is set *)
Lemma int_content_minimal v :
  match int_content v with
  | [] => False
  | [_] => True
  | b0 :: b1 :: _ => (b0 = x00 -> 128 <= b2n b1) /\ (b2n b0 < 128)
  end.
Proof.
  unfold int_content. destruct (be_min_hd v) as [E|(h & t & E & Hh)]; rewrite E; [exact I|].
  pose proof (b2n_nonzero h Hh). destruct (128 <=? b2n h) eqn:G.
  - split; [lia|]. change (b2n x00) with 0. lia.
  - destruct t; [exact I|]. split; [intro; congruence|lia].
Qed.
