(** C07 — the rate-limited issuer signs only authentic, untampered requests.
    [eval3] is RateLimitedIssuer.Evaluate; its primitives (HPKE open under the issuer's own name
    key, point parsing, ECDSA verification, origin registry, blind-sign + response encryption) are
    arbitrary functions here. *)
From PatVerif Require Import Model.Frontends Proofs.FrontendsP.

(** a response is returned only if ALL of the following held *)
Theorem evaluate_ok_implies : forall hpke_open cfg kid parse_pk sig_verify registered sign_and_seal data out,
  eval3 hpke_open cfg kid parse_pk sig_verify registered sign_and_seal data = Ok out ->
  exists r ir secret,
    (* parses completely: the bytes are exactly the canonical encoding of the decoded request *)
    um_req3 {| q3_key := []; q3_nkid := []; q3_enc := []; q3_sig := [] |} data = (true, r) /\ data = enc_req3 r /\
    (* decrypts under the issuer's own name key, with cfg ++ type ++ request key ++ issuer key id as AAD *)
    decrypt_go hpke_open cfg kid (q3_key r) (q3_enc r) = Ok (ir, secret) /\
    (* names a registered origin *)
    (exists name, unpad_go (in_padded ir) = Ok name /\ registered name = true) /\
    parse_pk (q3_key r) = true /\
    (* carries a valid signature by the request key over the whole request *)
    sig_verify (q3_key r) (signed_message r) (q3_sig r) = true /\
    sign_and_seal r ir secret = Some out.
Proof. exact eval3_ok_implies_l. Qed.
Print Assumptions evaluate_ok_implies.

Theorem decrypt_binds_request_key : forall hpke_open cfg kid key ect ir secret,
  decrypt_go hpke_open cfg kid key ect = Ok (ir, secret) ->
  (32 <= length ect)%nat /\
  exists pt, hpke_open (firstn 32 ect) (cfg ++ u16 3 ++ key ++ kid) (skipn 32 ect) = Some (pt, secret) \/
             (exists s', hpke_open (firstn 32 ect) (cfg ++ u16 3 ++ key ++ kid) (skipn 32 ect) = Some (pt, s')).
Proof. exact decrypt_binds_l. Qed.
Print Assumptions decrypt_binds_request_key.

(** Tampering.  Hypotheses (named, idealised cryptography — they are NOT proved):
    [unforgeable]: under the honest request key only the honest (message, signature) pair verifies;
    [aad_binding]: the honest ciphertext opens under no other request key in the AAD.
    Then any accepted byte string that keeps the request key or keeps the ciphertext of the honest
    request r0 — in particular every single-field change, hence every single-bit change — IS the
    honest request: all other variants are rejected. *)
Theorem tamper_rejected : forall hpke_open cfg kid parse_pk sig_verify registered sign_and_seal r0,
  (forall msg sig, sig_verify (q3_key r0) msg sig = true -> msg = signed_message r0 /\ sig = q3_sig r0) ->
  (forall key', key' <> q3_key r0 -> length key' = 49%nat ->
     hpke_open (firstn 32 (q3_enc r0)) (aad cfg kid key') (skipn 32 (q3_enc r0)) = None) ->
  forall data' out, wf_req3 r0 ->
  eval3 hpke_open cfg kid parse_pk sig_verify registered sign_and_seal data' = Ok out ->
  forall r', um_req3 {| q3_key := []; q3_nkid := []; q3_enc := []; q3_sig := [] |} data' = (true, r') ->
  (q3_key r' = q3_key r0 \/ q3_enc r' = q3_enc r0) -> data' = enc_req3 r0.
Proof. exact tamper_rejected_l. Qed.
Print Assumptions tamper_rejected.

Theorem issuer_never_panics : forall hpke_open cfg kid parse_pk sig_verify registered sign_and_seal data,
  eval3 hpke_open cfg kid parse_pk sig_verify registered sign_and_seal data <> Panic.
Proof. exact eval3_no_panic_l. Qed.
Print Assumptions issuer_never_panics.

(** the request key is bound as associated data on BOTH sides: the associated data the client model builds
    (tokens/type3/client.go: key id, suite ids, token type, request key, SHA-256 of the serialized name key) is the
    associated data the issuer model opens with, and the message the client signs is the message the issuer verifies *)
From PatVerif Require Import Model.RateLimited Proofs.RateLimitedP.
Theorem client_and_issuer_agree_on_aad : forall nk rk,
  aad (issuer_cfg nk) (name_key_id nk) rk = client_aad nk rk.
Proof. exact aad_agree. Qed.
Print Assumptions client_and_issuer_agree_on_aad.
Theorem client_and_issuer_agree_on_signed_message : forall r,
  signed_message r = client_signed (q3_key r) (q3_nkid r) (q3_enc r).
Proof. exact signed_agree. Qed.
Print Assumptions client_and_issuer_agree_on_signed_message.
