(** Derive.v — the executable, byte-exact derivations the properties prescribe, computed with Base/Hash.v:
    ECDSA blinding factor (hash_to_field / XMD), Ed25519 blinding factor (SHA-512 mod L), the anonymous issuer
    origin ID (HKDF-SHA-384), token bytes; plus arithmetic modulo the group orders so that closed forms
    (b*d mod N, inverses) can be bridged to curve points by an independent scalar multiplication. *)
From PatVerif Require Export Base.Hash Base.Der.
From PatVerif Require Import Base.Zq.
Open Scope N_scope.

Definition order_p224 : N := 26959946667150639794667015087019625940457807714424391721682722368061.
Definition order_p256 : N := 115792089210356248762697446949407573529996955224135760342422259061068512044369.
Definition order_p384 : N := 39402006196394479212279040100143613805079739270465446667946905279627659399113263569398956308152294913554433653942643.
Definition order_p521 : N := 6864797660130609714981900799081393217269435300143305409394463459185543183397655394245057746333217197532963996371363321113864768612440380340372808892707005449.
Definition order_ed25519 : N := 7237005577332262213973186563042994240857116359379907606001950938285454250989.

(** curve id (1 byte on the harness wire): 1 = P-224, 2 = P-256, 3 = P-384, 4 = P-521 *)
Definition curve_order (c : N) : N :=
  match c with 1 => order_p224 | 2 => order_p256 | 3 => order_p384 | 4 => order_p521 | _ => 1 end.
Definition curve_hash (c : N) : sha2 := match c with 1 => p256 | 2 => p256 | 3 => p384 | _ => p512 end.
Definition curve_L (c : N) : nat := match c with 1 => 32%nat | 2 => 48%nat | 3 => 72%nat | _ => 98%nat end.

Definition dst_ecdsa_key_blind : list byte :=   (* "ECDSA Key Blind" *)
  map n2b [69; 67; 68; 83; 65; 32; 75; 101; 121; 32; 66; 108; 105; 110; 100].

(** ecdsa.hashBlind: hash_to_field over bytes(D) || 0x00 || context, D the blind key as an integer
    (minimal big-endian bytes: leading zeros of the caller's encoding are dropped, values >= N are NOT reduced) *)
Definition ecdsa_blind_factor (c : N) (blind_key context : list byte) : N :=
  hash_to_field (curve_hash c) (be_min (be_dec_h blind_key) ++ [x00] ++ context) dst_ecdsa_key_blind (curve_L c) (curve_order c).

(** modular arithmetic; the inverse is Base/Zq.v [inv_mod]: the extended Euclidean algorithm by well-founded recursion
    (no fuel), PROVED there to be the inverse modulo every prime ([inv_mod_correct]); [invm_correct] below carries that
    statement to N.  The extracted code is the plain recursive loop. *)
Definition mulm (q a b : N) : N := (a * b) mod q.
Definition invm (q a : N) : N := Z.to_N (inv_mod (Z.of_N q) (Z.of_N a)).

(** little-endian *)
Definition le_val (l : list byte) : N := be_dec_h (rev l).
Definition le_bytes (k : nat) (v : N) : list byte := rev (be_enc_f k v).

(** ed25519 blinding factor: SHA-512(blind || 0x00 || context)[0:32] as a little-endian integer, mod L *)
Definition ed_blind_factor (blind context : list byte) : N :=
  le_val (firstn 32 (sha512 (blind ++ [x00] ++ context))) mod order_ed25519.

(** type-3 contexts: u16(3) || "ClientBlind" / "IssuerBlind" *)
Definition ctx_client_blind : list byte := [x00; x03] ++ map n2b [67; 108; 105; 101; 110; 116; 66; 108; 105; 110; 100].
Definition ctx_issuer_blind : list byte := [x00; x03] ++ map n2b [73; 115; 115; 117; 101; 114; 66; 108; 105; 110; 100].
Definition info_issuer_origin_alias : list byte :=   (* "IssuerOriginAlias" *)
  map n2b [73; 115; 115; 117; 101; 114; 79; 114; 105; 103; 105; 110; 65; 108; 105; 97; 115].

(** attester.computeIndex: HKDF-SHA-384(secret = unblinded key encoding, salt = client key encoding, info) -> 48 bytes *)
Definition compute_index (client_key_enc index_key_enc : list byte) : list byte :=
  hkdf p384 index_key_enc client_key_enc info_issuer_origin_alias 48.

(** the exponent of the key the attester recovers for a client secret d, origin index key (bytes) and any client blind:
    b_o * d mod N with b_o the issuer-side blinding factor of the origin index key *)
Definition origin_exponent (d : N) (index_key : list byte) : N :=
  mulm order_p384 (ecdsa_blind_factor 3 index_key ctx_issuer_blind) (d mod order_p384).

(** token bytes: type || nonce || SHA-256(challenge) || key id || authenticator *)
Definition token_input (ttype : N) (nonce challenge key_id : list byte) : list byte :=
  u16 ttype ++ nonce ++ sha256 challenge ++ key_id.
Definition token_bytes (ttype : N) (nonce challenge key_id auth : list byte) : list byte :=
  token_input ttype nonce challenge key_id ++ auth.
