(** Proofs about Model/Codecs.v: decode∘encode, canonical re-encoding, cache reuse, type separation. *)
From PatVerif Require Import Model.Codecs Proofs.QuicwireP.
From Coq Require Import ZifyN ZifyNat ZifyBool.
Open Scope N_scope.

(** * Token *)
Lemma dec_enc_token nk t tl : wf_token nk t -> dec_token nk (enc_token t ++ tl) = Some t.
Proof.
  intros (Hty & Hn & Hc & Hk & Ha). unfold dec_token, enc_token.
  rewrite <- ?app_assoc, read_u16_app by exact Hty.
  rewrite read_bytes_app by exact Hn. rewrite read_bytes_app by exact Hc.
  rewrite read_bytes_app by exact Hk. rewrite read_bytes_app by exact Ha.
  destruct t; reflexivity.
Qed.

Lemma dec_token_inv nk s t : dec_token nk s = Some t -> wf_token nk t /\ exists tl, s = enc_token t ++ tl.
Proof.
  unfold dec_token.
  destruct (read_u16 s) as [[ty s1]|] eqn:E1; [|discriminate].
  destruct (read_bytes 32 s1) as [[n s2]|] eqn:E2; [|discriminate].
  destruct (read_bytes 32 s2) as [[c s3]|] eqn:E3; [|discriminate].
  destruct (read_bytes 32 s3) as [[k s4]|] eqn:E4; [|discriminate].
  destruct (read_bytes nk s4) as [[a s5]|] eqn:E5; [|discriminate].
  intro H. inversion H; subst t; clear H.
  apply read_u16_inv in E1. destruct E1 as [-> Hty].
  apply read_bytes_inv in E2. destruct E2 as [-> Hn].
  apply read_bytes_inv in E3. destruct E3 as [-> Hc].
  apply read_bytes_inv in E4. destruct E4 as [-> Hk].
  apply read_bytes_inv in E5. destruct E5 as [-> Ha].
  split; [repeat split; assumption|]. exists s5. unfold enc_token. cbn [t_type t_nonce t_ctx t_keyid t_auth].
  now rewrite <- ?app_assoc.
Qed.

(** generic corollaries used for every prefix-closed decoder *)
Lemma prefix_len {A} (x t : list A) : (length x <= length (x ++ t))%nat.
Proof. rewrite app_length. lia. Qed.

(** * comma join / split *)
Lemma split_comma_nonempty s : split_comma s <> [].
Proof. destruct s as [|b t]; cbn [split_comma]; [discriminate|]. destruct (byte_eqb b comma); [discriminate|]. destruct (split_comma t); discriminate. Qed.

Lemma join_split s : join_comma (split_comma s) = s.
Proof.
  induction s as [|b t IH]; [reflexivity|]. cbn [split_comma].
  destruct (byte_eqb b comma) eqn:E.
  - apply byte_eqb_eq in E. subst b.
    destruct (split_comma t) as [|h r] eqn:S; [now apply split_comma_nonempty in S|].
    cbn [join_comma app]. cbn [join_comma] in IH. now rewrite IH.
  - destruct (split_comma t) as [|h r] eqn:S; [now apply split_comma_nonempty in S|].
    destruct r as [|h2 r]; cbn [join_comma app] in *; now rewrite IH.
Qed.

Lemma split_no_comma x : no_comma x -> split_comma x = [x].
Proof.
  induction x as [|b t IH]; [reflexivity|]. intro H. cbn [split_comma].
  assert (Hb : byte_eqb b comma = false).
  { destruct (byte_eqb b comma) eqn:E; [|reflexivity]. apply byte_eqb_eq in E. subst. exfalso. apply H. now left. }
  rewrite Hb, IH; [reflexivity|]. intro Hin. apply H. now right.
Qed.

Lemma split_app_comma x r : no_comma x -> split_comma (x ++ comma :: r) = x :: split_comma r.
Proof.
  induction x as [|b t IH]; intro H.
  - cbn [app split_comma]. now rewrite (proj2 (byte_eqb_eq comma comma) eq_refl).
  - cbn [app split_comma].
    assert (Hb : byte_eqb b comma = false).
    { destruct (byte_eqb b comma) eqn:E; [|reflexivity]. apply byte_eqb_eq in E. subst. exfalso. apply H. now left. }
    rewrite Hb, IH; [reflexivity|]. intro Hin. apply H. now right.
Qed.

Lemma split_join l : l <> [] -> Forall no_comma l -> split_comma (join_comma l) = l.
Proof.
  induction l as [|x l IH]; [congruence|]. intros _ HF. inversion HF as [|? ? Hx Hl]; subst.
  destruct l as [|y l].
  - cbn [join_comma]. now apply split_no_comma.
  - change (join_comma (x :: y :: l)) with (x ++ comma :: join_comma (y :: l)).
    rewrite split_app_comma by exact Hx. f_equal. apply IH; [discriminate|exact Hl].
Qed.

(** * TokenChallenge *)
Lemma dec_enc_challenge c tl : wf_challenge c -> dec_challenge (enc_challenge c ++ tl) = Some c.
Proof.
  intros (Hty & Hne & Hi & Hn & Hone & Hnc & Ho). unfold dec_challenge, enc_challenge.
  rewrite <- ?app_assoc, read_u16_app by exact Hty.
  rewrite read_u16p_app by exact Hi.
  destruct (c_issuer c) as [|i0 it] eqn:Ei; [congruence|].
  rewrite read_u8p_app by exact Hn. rewrite read_u16p_app by exact Ho.
  rewrite split_join by assumption. destruct c; cbn in *; now subst.
Qed.

Lemma dec_challenge_inv s c : dec_challenge s = Some c ->
  c_type c < 65536 /\ c_issuer c <> [] /\ fits16 (c_issuer c) = true /\ fits8 (c_nonce c) = true /\
  fits16 (join_comma (c_origin c)) = true /\ split_comma (join_comma (c_origin c)) = c_origin c /\
  exists tl, s = enc_challenge c ++ tl.
Proof.
  unfold dec_challenge.
  destruct (read_u16 s) as [[ty s1]|] eqn:E1; [|discriminate].
  destruct (read_u16_prefixed s1) as [[iss s2]|] eqn:E2; [|discriminate].
  destruct iss as [|i0 it] eqn:Ei; [discriminate|]. rewrite <- Ei in *.
  destruct (read_u8_prefixed s2) as [[n s3]|] eqn:E3; [|discriminate].
  destruct (read_u16_prefixed s3) as [[o s4]|] eqn:E4; [|discriminate].
  intro H. inversion H; subst c; clear H. cbn [c_type c_issuer c_nonce c_origin].
  apply read_u16_inv in E1. destruct E1 as [-> Hty].
  apply read_u16p_inv in E2. destruct E2 as [-> Hi].
  apply read_u8p_inv in E3. destruct E3 as [-> Hn].
  apply read_u16p_inv in E4. destruct E4 as [-> Ho].
  rewrite join_split. repeat split; try assumption; [rewrite Ei; discriminate|].
  exists s4. unfold enc_challenge. cbn [c_type c_issuer c_nonce c_origin]. rewrite join_split.
  now rewrite <- ?app_assoc.
Qed.

(** The decoded value re-encodes to a decodable, no longer byte string that decodes to the same value.
    (OriginInfo: the decoder returns the comma-split of the wire string; [""] for the empty string.) *)
Lemma dec_challenge_canonical s c : dec_challenge s = Some c ->
  (length (enc_challenge c) <= length s)%nat /\ dec_challenge (enc_challenge c) = Some c /\
  marshal_challenge c = Ok (enc_challenge c).
Proof.
  intro H. apply dec_challenge_inv in H.
  destruct H as (Hty & Hne & Hi & Hn & Ho & Hsj & tl & ->). split; [apply prefix_len|]. split.
  - unfold dec_challenge, enc_challenge.
    rewrite read_u16_app by exact Hty. rewrite read_u16p_app by exact Hi.
    destruct (c_issuer c) as [|i0 it] eqn:Ei; [congruence|].
    rewrite read_u8p_app by exact Hn.
    rewrite <- (app_nil_r (u16p (join_comma (c_origin c)))). rewrite read_u16p_app by exact Ho.
    rewrite Hsj. destruct c; cbn in *; now subst.
  - unfold marshal_challenge. now rewrite Hi, Hn, Ho.
Qed.

(** * Request objects: the cache invariant over every history of Marshal / Unmarshal calls *)
Section Cache.
  Context {A : Type} (enc : A -> list byte) (um : A -> list byte -> bool * A).
  Definition cache_inv (o : obj A) : Prop :=
    match raw o with Some r => r = enc (val o) | None => True end.

  Inductive op := OpMarshal | OpUnmarshal (b : list byte).
  Definition step (o : obj A) (p : op) : obj A :=
    match p with
    | OpMarshal => snd (marshal enc o)
    | OpUnmarshal b => snd (unmarshal um o b)
    end.

  Lemma marshal_inv o : cache_inv o -> fst (marshal enc o) = enc (val o) /\ cache_inv (snd (marshal enc o))
                                       /\ val (snd (marshal enc o)) = val o.
  Proof. unfold cache_inv, marshal. destruct (raw o) as [r|] eqn:E; cbn [fst snd raw val]; intros H; [subst r; rewrite E; auto|auto]. Qed.

  Lemma unmarshal_inv o b : cache_inv (snd (unmarshal um o b)).
  Proof. unfold cache_inv, unmarshal. destruct (um (val o) b). cbn. exact I. Qed.

  Lemma step_inv o p : cache_inv o -> cache_inv (step o p).
  Proof. destruct p; cbn [step]; intro H; [now apply marshal_inv|apply unmarshal_inv]. Qed.

  (** every reachable object state marshals to the canonical encoding of its current value *)
  Theorem history_marshal_canonical (v0 : A) (h : list op) :
    let o := fold_left step h {| raw := None; val := v0 |} in
    fst (marshal enc o) = enc (val o).
  Proof.
    cbn zeta. apply marshal_inv.
    assert (G : forall o, cache_inv o -> cache_inv (fold_left step h o)).
    { induction h as [|p h IH]; intros o Ho; cbn [fold_left]; [exact Ho|]. apply IH. now apply step_inv. }
    apply G. exact I.
  Qed.

  (** whatever the object held before (even a populated, unrelated cache): after Unmarshal,
      Marshal returns the canonical encoding of the value now held *)
  Theorem reuse_any_previous_state (old : obj A) b :
    let '(ok, o) := unmarshal um old b in fst (marshal enc o) = enc (val o).
  Proof. unfold unmarshal. destruct (um (val old) b) as [ok v]. reflexivity. Qed.
End Cache.

(** * Types 1 and 2 *)
Lemma um_req12_enc ty ne old r tl : ty < 65536 -> wf_req12 ne r ->
  um_req12 ty ne old (enc_req12 ty r ++ tl) = (true, r).
Proof.
  intros Hty (Hk & He). unfold um_req12, enc_req12. rewrite <- ?app_assoc, read_u16_app by exact Hty.
  rewrite N.eqb_refl. cbn [negb]. rewrite read_u8_app by exact Hk. rewrite read_bytes_app by exact He.
  destruct r; reflexivity.
Qed.

Lemma um_req12_inv ty ne old s r : um_req12 ty ne old s = (true, r) ->
  wf_req12 ne r /\ ty < 65536 /\ exists tl, s = enc_req12 ty r ++ tl.
Proof.
  unfold um_req12. destruct (read_u16 s) as [[t s1]|] eqn:E1; [|discriminate].
  destruct (t =? ty) eqn:Et; cbn [negb]; [|discriminate]. apply N.eqb_eq in Et. subst t.
  destruct (read_u8 s1) as [[k s2]|] eqn:E2; [|discriminate].
  destruct (read_bytes ne s2) as [[e s3]|] eqn:E3; [|discriminate].
  intro H. inversion H; subst r; clear H.
  apply read_u16_inv in E1. destruct E1 as [-> Hty].
  apply read_u8_inv in E2. destruct E2 as [-> Hk].
  apply read_bytes_inv in E3. destruct E3 as [-> He].
  split; [split; assumption|]. split; [exact Hty|]. exists s3. unfold enc_req12. cbn [q_keyid q_blinded].
  now rewrite <- ?app_assoc.
Qed.

Lemma um_req12_type_sep ty ne old s t r : read_u16 s = Some (t, r) -> t <> ty ->
  fst (um_req12 ty ne old s) = false.
Proof.
  intros E Hne. unfold um_req12. rewrite E. destruct (t =? ty) eqn:Et; [apply N.eqb_eq in Et; congruence|]. reflexivity.
Qed.

Lemma um_req12_short ty ne old s : read_u16 s = None -> fst (um_req12 ty ne old s) = false.
Proof. intro E. unfold um_req12. now rewrite E. Qed.

(** * Type 3 *)
Lemma um_req3_enc old r : wf_req3 r -> um_req3 old (enc_req3 r) = (true, r).
Proof.
  intros (Hk & Hn & Hne & He & Hs). unfold um_req3, enc_req3.
  rewrite read_u16_app by lia. cbn [N.eqb Pos.eqb negb].
  rewrite read_bytes_app by exact Hk. rewrite read_bytes_app by exact Hn.
  rewrite read_u16p_app by exact He. destruct (q3_enc r) as [|e0 et] eqn:Ee; [congruence|].
  rewrite read_bytes_exact by exact Hs. destruct r; cbn in *; now subst.
Qed.

Lemma um_req3_inv old s r : um_req3 old s = (true, r) -> wf_req3 r /\ s = enc_req3 r.
Proof.
  unfold um_req3. destruct (read_u16 s) as [[t s1]|] eqn:E1; [|discriminate].
  destruct (t =? 3) eqn:Et; cbn [negb]; [|discriminate]. apply N.eqb_eq in Et. subst t.
  destruct (read_bytes 49 s1) as [[k s2]|] eqn:E2; [|discriminate].
  destruct (read_bytes 32 s2) as [[n s3]|] eqn:E3; [|discriminate].
  destruct (read_u16_prefixed s3) as [[e s4]|] eqn:E4; [|discriminate].
  destruct e as [|e0 et] eqn:Ee; [discriminate|]. rewrite <- Ee in *.
  destruct (read_bytes 96 s4) as [[sg s5]|] eqn:E5; [|discriminate].
  destruct s5 as [|x s5]; [|discriminate].
  intro H. inversion H; subst r; clear H.
  apply read_u16_inv in E1. destruct E1 as [-> _].
  apply read_bytes_inv in E2. destruct E2 as [-> Hk].
  apply read_bytes_inv in E3. destruct E3 as [-> Hn].
  apply read_u16p_inv in E4. destruct E4 as [-> He].
  apply read_bytes_inv in E5. destruct E5 as [-> Hs].
  split.
  - unfold wf_req3. cbn [q3_key q3_nkid q3_enc q3_sig]. repeat split; try assumption. rewrite Ee. discriminate.
  - unfold enc_req3. cbn [q3_key q3_nkid q3_enc q3_sig]. now rewrite <- ?app_assoc, app_nil_r.
Qed.

Lemma um_req3_type_sep old s t r : read_u16 s = Some (t, r) -> t <> 3 -> fst (um_req3 old s) = false.
Proof.
  intros E Hne. unfold um_req3. rewrite E. destruct (t =? 3) eqn:Et; [apply N.eqb_eq in Et; congruence|]. reflexivity.
Qed.

(** * Inner request *)
Lemma um_inner_enc old r tl : wf_inner r -> um_inner old (enc_inner r ++ tl) = (true, r).
Proof.
  intros (Hk & Hm & Hp). unfold um_inner, enc_inner. rewrite <- ?app_assoc.
  rewrite read_u8_app by exact Hk. rewrite read_bytes_app by exact Hm. rewrite read_u16p_app by exact Hp.
  destruct r; reflexivity.
Qed.

Lemma um_inner_inv old s r : um_inner old s = (true, r) -> wf_inner r /\ exists tl, s = enc_inner r ++ tl.
Proof.
  unfold um_inner. destruct (read_u8 s) as [[k s1]|] eqn:E1; [|discriminate].
  destruct (read_bytes 256 s1) as [[m s2]|] eqn:E2; [|discriminate].
  destruct (read_u16_prefixed s2) as [[p s3]|] eqn:E3; [|discriminate].
  intro H. inversion H; subst r; clear H.
  apply read_u8_inv in E1. destruct E1 as [-> Hk].
  apply read_bytes_inv in E2. destruct E2 as [-> Hm].
  apply read_u16p_inv in E3. destruct E3 as [-> Hp].
  split; [repeat split; assumption|]. exists s3. unfold enc_inner. cbn [in_keyid in_blinded in_padded].
  now rewrite <- ?app_assoc.
Qed.

(** * Encapsulation key *)
Lemma dec_enc_encap pkv k tl : wf_encap pkv k -> dec_encap pkv (enc_encap k ++ tl) = Some k.
Proof.
  intros (Hid & Hsz & Hkdf & Haead & Hv). unfold dec_encap, enc_encap. rewrite <- ?app_assoc.
  rewrite read_u8_app by exact Hid.
  assert (Hkem : e_kem k < 65536).
  { unfold kem_pk_size in Hsz. destruct (e_kem k) as [|p]; [discriminate|].
    destruct (N.ltb_spec (N.pos p) 65536); [assumption|].
    exfalso. do 16 (destruct p as [p|p|]; try discriminate; try lia). }
  rewrite read_u16_app by exact Hkem. rewrite Hsz. rewrite read_bytes_app by reflexivity.
  assert (Hk : e_kdf k < 65536) by (unfold kdf_ok in Hkdf; lia).
  assert (Ha : e_aead k < 65536) by (unfold aead_ok in Haead; lia).
  rewrite read_u16_app by exact Hk. rewrite read_u16_app by exact Ha.
  rewrite Hkdf, Haead, Hv. destruct k; reflexivity.
Qed.

Lemma dec_encap_inv pkv s k : dec_encap pkv s = Some k -> wf_encap pkv k /\ exists tl, s = enc_encap k ++ tl.
Proof.
  unfold dec_encap. destruct (read_u8 s) as [[id s1]|] eqn:E1; [|discriminate].
  destruct (read_u16 s1) as [[kem s2]|] eqn:E2; [|discriminate].
  destruct (kem_pk_size kem) as [n|] eqn:Ek; [|discriminate].
  destruct (read_bytes n s2) as [[pk s3]|] eqn:E3; [|discriminate].
  destruct (read_u16 s3) as [[kdf s4]|] eqn:E4; [|discriminate].
  destruct (read_u16 s4) as [[aead s5]|] eqn:E5; [|discriminate].
  destruct (kdf_ok kdf) eqn:Hkdf; cbn [andb]; [|discriminate].
  destruct (aead_ok aead) eqn:Haead; cbn [andb]; [|discriminate].
  destruct (pkv kem pk) eqn:Hv; [|discriminate].
  intro H. inversion H; subst k; clear H.
  apply read_u8_inv in E1. destruct E1 as [-> Hid].
  apply read_u16_inv in E2. destruct E2 as [-> _].
  apply read_bytes_inv in E3. destruct E3 as [-> Hn].
  apply read_u16_inv in E4. destruct E4 as [-> _].
  apply read_u16_inv in E5. destruct E5 as [-> _].
  split.
  - unfold wf_encap. cbn [e_id e_kem e_pk e_kdf e_aead]. rewrite Hn. repeat split; assumption.
  - exists s5. unfold enc_encap. cbn [e_id e_kem e_pk e_kdf e_aead]. now rewrite <- ?app_assoc.
Qed.
