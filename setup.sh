#!/bin/bash
# Build everything the checks need, offline, from files on disk only.
set -e
cd "$(dirname "$0")"
export GOFLAGS=-mod=mod GOPROXY=off GOSUMDB=off GOTOOLCHAIN=local
mkdir -p bin work evidence replays
( cd coq && coq_makefile -f _CoqProject -o Makefile >/dev/null && timeout 3000 make -j16 )
./ocaml/build.sh
cp /repo/go.sum harness/go.sum
( cd harness && go build -tags verif -o ../bin/implrun ./cmd/implrun && CGO_ENABLED=1 go build -race -tags verif -o ../bin/implrun-race ./cmd/implrun )
echo setup-ok
