(** Dispatch2.v — entry points of the models added after Dispatch.v (DER/token keys, hashes, key blinding, ...).
    [dispatch2] is what the OCaml runner calls; unknown names fall through to [dispatch]. *)
From Coq Require Import Strings.String.
From PatVerif Require Import Base.GoSem Model.Dispatch Model.TokenKey Model.Codecs.
Open Scope N_scope.

Definition out_z (z : Z) : list (list byte) :=
  [if (z <? 0)%Z then [x01] else [x00]; be_min (Z.abs_N z)].

Definition dispatch_tokenkey (name : list byte) (a : list (list byte)) : option (list (list byte)) :=
  if is name "marshal_pss" then Some [marshal_pss (narg a 0) (narg a 1)]
  else if is name "marshal_legacy" then Some [marshal_legacy (narg a 0) (narg a 1)]
  else if is name "unmarshal_token_key" then
    Some (match unmarshal_token_key (arg a 0) with
          | Some (n, e) => st_ok :: out_z n ++ out_z e
          | None => [st_none] end)
  else if is name "rsa_token_key_id" then
    let id := rsa_token_key_id (narg a 0) (narg a 1) in Some [id; [truncated_key_id id]]
  else if is name "token_key_id" then
    let id := token_key_id (arg a 0) in Some [id; [truncated_key_id id]]
  else if is name "name_key_id" then
    (* id kem pk kdf aead *)
    Some [sha256 (enc_encap {| e_id := narg a 0; e_kem := narg a 1; e_pk := arg a 2; e_kdf := narg a 3; e_aead := narg a 4 |})]
  else if is name "sha256" then Some [sha256 (arg a 0)]
  else if is name "sha384" then Some [sha384 (arg a 0)]
  else if is name "sha512" then Some [sha512 (arg a 0)]
  else None.

Definition dispatch2 (name : list byte) (a : list (list byte)) : list (list byte) :=
  match dispatch_tokenkey name a with Some r => r | None => dispatch name a end.
