(** Der.v — the DER subset pat-go touches: definite lengths in minimal form, single-octet tags,
    INTEGER (minimal two's complement), BIT STRING, and the cryptobyte readers
    (String.ReadASN1 / ReadASN1Integer / ReadASN1BitString) transcribed from x/crypto/cryptobyte/asn1.go. *)
From PatVerif Require Export Base.Cryptobyte.
From Coq Require Import ZifyN ZifyNat ZifyBool.
Open Scope N_scope.

(** minimal big-endian digits of a number: no leading zero byte; [] for 0 (big.Int.Bytes) *)
Fixpoint strip_lead0 (l : list byte) : list byte :=
  match l with
  | b :: t => if byte_eqb b x00 then strip_lead0 t else l
  | [] => []
  end.
Definition byte_len (v : N) : nat := N.to_nat ((N.size v + 7) / 8).
Definition be_min (v : N) : list byte := strip_lead0 (be_enc_f (byte_len v) v).

(** * Encoders (cryptobyte.Builder.AddASN1, encoding/asn1.Marshal) *)
Definition der_len (n : N) : list byte :=
  if n <? 128 then [n2b n] else let b := be_min n in n2b (128 + N.of_nat (length b)) :: b.
Definition tlv (tag : byte) (c : list byte) : list byte := tag :: der_len (N.of_nat (length c)) ++ c.

(** content octets of a non-negative INTEGER *)
Definition int_content (v : N) : list byte :=
  match be_min v with
  | [] => [x00]
  | h :: t => if 128 <=? b2n h then x00 :: h :: t else h :: t
  end.
Definition der_int (v : N) : list byte := tlv x02 (int_content v).
Definition der_bitstring (c : list byte) : list byte := tlv x03 (x00 :: c).   (* no unused bits *)
Definition der_seq (c : list byte) : list byte := tlv x30 c.

(** * Readers *)
(** ReadBytes with a length given as a number (the comparison is made before any conversion, as in Go) *)
Definition read_bytes_N (n : N) : P (list byte) := fun s =>
  if N.of_nat (length s) <? n then None else read_bytes (N.to_nat n) s.

(** String.ReadAnyASN1: (tag, content, rest) *)
Definition read_any_asn1 (s : list byte) : option (byte * list byte * list byte) :=
  match s with
  | t :: l :: r =>
    if N.land (b2n t) 31 =? 31 then None else
    if b2n l <? 128 then
      match read_bytes (N.to_nat (b2n l)) r with Some (c, r') => Some (t, c, r') | None => None end
    else
      let ll := b2n l - 128 in
      if (ll =? 0) || (4 <? ll) then None else
      match read_bytes (N.to_nat ll) r with
      | None => None
      | Some (lb, r') =>
        let len := be_dec lb in
        if len <? 128 then None else
        if len / 256 ^ (ll - 1) =? 0 then None else
        if 4294967296 <=? 2 + ll + len then None else
        match read_bytes_N len r' with Some (c, r'') => Some (t, c, r'') | None => None end
      end
  | _ => None
  end.

Definition read_asn1 (tag : byte) : P (list byte) := fun s =>
  match read_any_asn1 s with
  | Some (t, c, r) => if byte_eqb t tag then Some (c, r) else None
  | None => None
  end.

Definition check_int (b : list byte) : bool :=
  match b with
  | [] => false
  | [_] => true
  | b0 :: b1 :: _ =>
    negb (((b2n b0 =? 0) && (b2n b1 <? 128)) || ((b2n b0 =? 255) && (128 <=? b2n b1)))
  end.

(** two's complement value of a non-empty big-endian byte string *)
Definition signed_val (b : list byte) : Z :=
  match b with
  | h :: _ => if 128 <=? b2n h then (Z.of_N (be_dec_h b) - 2 ^ (8 * Z.of_nat (length b)))%Z else Z.of_N (be_dec_h b)
  | [] => 0%Z
  end.

(** ReadASN1Integer into *big.Int *)
Definition read_bigint : P Z := fun s =>
  match read_asn1 x02 s with
  | Some (c, r) => if check_int c then Some (signed_val c, r) else None
  | None => None
  end.
(** ReadASN1Integer into *int (64-bit): at most eight content octets *)
Definition read_int64 : P Z := fun s =>
  match read_asn1 x02 s with
  | Some (c, r) => if check_int c && (N.of_nat (length c) <=? 8) then Some (signed_val c, r) else None
  | None => None
  end.

(** ReadASN1BitString followed by BitString.RightAlign *)
Definition read_bitstring_aligned : P (list byte) := fun s =>
  match read_asn1 x03 s with
  | Some (pad :: bytes, r) =>
    let p := b2n pad in
    if 7 <? p then None else
    match bytes with
    | [] => if p =? 0 then Some ([], r) else None
    | _ => if N.land (b2n (last bytes x00)) (2 ^ p - 1) =? 0
           then Some (if p =? 0 then bytes else be_enc (length bytes) (be_dec bytes / 2 ^ p), r)
           else None
    end
  | _ => None
  end.
