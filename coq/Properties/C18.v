(** C18 — token keys encode canonically; key identifiers are derived from them.
    Model: Model/TokenKey.v over Base/Der.v (DER written from X.690) and Base/Hash.v (SHA-256 from FIPS 180-4). *)
From PatVerif Require Import Model.TokenKey Proofs.DerP Proofs.TokenKeyP.
Open Scope N_scope.

(** decoding inverts encoding, both SubjectPublicKeyInfo forms, for EVERY modulus n >= 0 whose minimal big-endian
    form is shorter than 2^31 bytes (DER lengths here are at most 4 octets) and every exponent of the Go int range *)
Theorem pss_roundtrip : forall n e, small_modulus n -> e < 2 ^ 63 ->
  unmarshal_token_key (marshal_pss n e) = Some (Z.of_N n, Z.of_N e).
Proof. exact pss_roundtrip_l. Qed.
Print Assumptions pss_roundtrip.

Theorem legacy_roundtrip : forall n e, small_modulus n -> e < 2 ^ 63 ->
  unmarshal_token_key (marshal_legacy n e) = Some (Z.of_N n, Z.of_N e).
Proof. exact legacy_roundtrip_l. Qed.
Print Assumptions legacy_roundtrip.

(** the RSASSA-PSS form is byte-identical to the prescribed DER: a SEQUENCE of the literal AlgorithmIdentifier
    (OID 1.2.840.113549.1.1.10; hash SHA-384; MGF1 with SHA-384; salt length 48 = 0x30) and a BIT STRING with no
    unused bits holding RSAPublicKey ::= SEQUENCE { modulus INTEGER, publicExponent INTEGER } *)
Theorem pss_prefix_exact : forall n e,
  marshal_pss n e = tlv x30 (alg_pss_rfc ++ tlv x03 (x00 :: tlv x30 (der_int n ++ der_int e))).
Proof. exact pss_exact_l. Qed.
Print Assumptions pss_prefix_exact.

Theorem legacy_prefix_exact : forall n e,
  marshal_legacy n e = tlv x30 (alg_rsa_rfc ++ tlv x03 (x00 :: tlv x30 (der_int n ++ der_int e))).
Proof. exact legacy_exact_l. Qed.
Print Assumptions legacy_prefix_exact.

(** INTEGER contents are minimal two's complement: at least one octet, a leading 00 only before an octet >= 0x80,
    never a leading octet >= 0x80 (the value is non-negative) *)
Theorem integer_minimal : forall v,
  match int_content v with
  | [] => False
  | [_] => True
  | b0 :: b1 :: _ => (b0 = x00 -> 128 <= b2n b1) /\ (b2n b0 < 128)
  end.
Proof. exact int_content_minimal. Qed.
Print Assumptions integer_minimal.

(** the encoding determines the key (so the key id, a hash of it, is a function of the key alone and two keys
    share an id only by a SHA-256 collision) *)
Theorem marshal_injective : forall n e n' e', small_modulus n -> small_modulus n' -> e < 2 ^ 63 -> e' < 2 ^ 63 ->
  marshal_pss n e = marshal_pss n' e' -> n = n' /\ e = e'.
Proof. exact marshal_inj_l. Qed.
Print Assumptions marshal_injective.

(** the DER reader accepts exactly one encoding of each element it is given by the writer, whatever follows *)
Theorem reader_inverts_writer : forall t c r,
  N.land (b2n t) 31 <> 31 -> N.of_nat (length c) + 6 < 4294967296 ->
  read_asn1 t (tlv t c ++ r) = Some (c, r).
Proof. exact read_asn1_tlv. Qed.
Print Assumptions reader_inverts_writer.

(** non-vacuity: a 2048-bit-style modulus with the top bit set, and one whose bit length is not a multiple of 8 *)
Example roundtrip_example :
  unmarshal_token_key (marshal_pss (2 ^ 2047 + 12345) 65537) = Some (Z.of_N (2 ^ 2047 + 12345), 65537%Z) /\
  unmarshal_token_key (marshal_pss (2 ^ 2041 + 1) 3) = Some (Z.of_N (2 ^ 2041 + 1), 3%Z) /\
  small_modulus (2 ^ 2047 + 12345).
Proof. vm_compute. repeat split; reflexivity. Qed.
