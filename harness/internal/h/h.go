// Package h: shared plumbing of the correspondence harness — case files for the model
// runner, panic capture, statistics and violation records.
package h

import (
	"bufio"
	"crypto/sha1"
	"encoding/binary"
	"encoding/hex"
	"encoding/json"
	"fmt"
	"math/rand"
	"os"
	"sort"
	"strings"
	"sync"
)

type Violation struct {
	Clause string         `json:"clause"`
	Detail map[string]any `json:"detail"`
}

type Ctx struct {
	Prop     string
	Tier     string
	Seed     int64
	Rng      *rand.Rand
	mu       sync.Mutex
	w        *bufio.Writer
	f        *os.File
	Cases    int            // lines written for model comparison
	Evals    int            // implementation executions (incl. predicate-only sweeps)
	Cats     map[string]int // input distribution
	Distinct map[string]struct{}
	Samples  []any
	Viol     []Violation
	Notes    map[string]any
}

func NewCtx(prop, tier string, seed int64, casesPath string) *Ctx {
	f, err := os.Create(casesPath)
	if err != nil {
		panic(err)
	}
	return &Ctx{Prop: prop, Tier: tier, Seed: seed, Rng: rand.New(rand.NewSource(seed)),
		w: bufio.NewWriterSize(f, 1<<20), f: f, Cats: map[string]int{}, Distinct: map[string]struct{}{},
		Notes: map[string]any{}}
}

func (c *Ctx) Thorough() bool { return c.Tier == "thorough" }

func Hex(b []byte) string {
	if len(b) == 0 {
		return "-"
	}
	return hex.EncodeToString(b)
}

func U64(v uint64) []byte {
	b := make([]byte, 8)
	binary.BigEndian.PutUint64(b, v)
	return b
}

var (
	StNone  = []byte{0x00}
	StOK    = []byte{0x01}
	StPanic = []byte{0xff}
)

// Case records one model call with the implementation's observed answer.
// cat: input-distribution bucket; nontrivial: counted in distinct_nontrivial when true.
func (c *Ctx) Case(cat string, nontrivial bool, name string, args [][]byte, outs [][]byte) {
	var sb strings.Builder
	sb.WriteString(name)
	for _, a := range args {
		sb.WriteByte(' ')
		sb.WriteString(Hex(a))
	}
	key := sb.String()
	sb.WriteString(" |")
	for _, o := range outs {
		sb.WriteByte(' ')
		sb.WriteString(Hex(o))
	}
	c.mu.Lock()
	defer c.mu.Unlock()
	c.w.WriteString(sb.String())
	c.w.WriteByte('\n')
	c.Cases++
	c.Evals++
	c.Cats[cat]++
	if nontrivial {
		dk := key
		if len(dk) > 64 {
			sum := sha1.Sum([]byte(dk))
			dk = string(sum[:])
		}
		c.Distinct[dk] = struct{}{}
	}
	if len(c.Samples) < 12 && (c.Cases%97 == 1) {
		c.Samples = append(c.Samples, map[string]any{"call": truncate(key, 300), "impl": truncate(sb.String()[len(key):], 300), "category": cat})
	}
}

func truncate(s string, n int) string {
	if len(s) > n {
		return s[:n] + "..."
	}
	return s
}

// Count records predicate-only evaluations (no model line).
func (c *Ctx) Count(cat string, n int, distinctKey string) {
	c.mu.Lock()
	defer c.mu.Unlock()
	c.Evals += n
	c.Cats[cat] += n
	if distinctKey != "" {
		c.Distinct[distinctKey] = struct{}{}
	}
}

func (c *Ctx) Sample(s any) {
	c.mu.Lock()
	defer c.mu.Unlock()
	if len(c.Samples) < 24 {
		c.Samples = append(c.Samples, s)
	}
}

func (c *Ctx) Violation(clause string, detail map[string]any) {
	c.mu.Lock()
	defer c.mu.Unlock()
	if len(c.Viol) < 50 {
		c.Viol = append(c.Viol, Violation{clause, detail})
	}
}

// Protect runs f and reports whether it panicked.
func Protect(f func()) (panicked bool, msg string) {
	defer func() {
		if r := recover(); r != nil {
			panicked = true
			msg = fmt.Sprint(r)
		}
	}()
	f()
	return
}

func (c *Ctx) Finish(resultPath string) {
	c.w.Flush()
	c.f.Close()
	cats := make([]string, 0, len(c.Cats))
	for k := range c.Cats {
		cats = append(cats, k)
	}
	sort.Strings(cats)
	res := map[string]any{
		"property": c.Prop, "tier": c.Tier, "seed": c.Seed,
		"cases": c.Cases, "evaluations": c.Evals, "distinct_nontrivial": len(c.Distinct),
		"categories": c.Cats, "samples": c.Samples, "violations": c.Viol, "notes": c.Notes,
	}
	b, _ := json.MarshalIndent(res, "", " ")
	os.WriteFile(resultPath, b, 0o644)
}
